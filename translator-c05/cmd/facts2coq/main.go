// facts2coq regenerates coq/C05/Gen.v from the subprocess package of $VERIF_REPO (default /repo):
//
//	command_wrapper_linux.go / _darwin.go : setGroupAttrToCmd (Setpgid, Cancel hook, WaitDelay), killProcessGroup
//	command_wrapper.go                    : cmdWrapper.Run, cmdWrapper.Stop
//	executor.go                           : Subprocess.Cancel, Subprocess.stop, Subprocess.Execute
//	monitoring.go                         : the goroutine of subprocessMonitoring.runProcessMonitoring
//
// Every statement of these functions must match one of a closed list of shapes (compared after removing white space
// and comments); anything else is an error: the translator fails closed and the check reports a broken tie.
// The output is a record of statement lists of a small IR (GU.C05.Model.facts); what the model and the theorems need
// of it is computed in Coq (kill_works, run_watches, ..., facts_ok).
package main

import (
	"bytes"
	"fmt"
	"go/ast"
	"go/parser"
	"go/printer"
	"go/token"
	"os"
	"path/filepath"
	"regexp"
	"strings"
)

func die(f string, a ...any) {
	fmt.Fprintf(os.Stderr, "facts2coq: "+f+"\n", a...)
	os.Exit(1)
}

var fset = token.NewFileSet()

func norm(n ast.Node) string {
	var b bytes.Buffer
	_ = printer.Fprint(&b, fset, n)
	return strings.Join(strings.Fields(b.String()), "")
}

func parse(path string) *ast.File {
	f, err := parser.ParseFile(fset, path, nil, 0) // comments dropped
	if err != nil {
		die("%v", err)
	}
	return f
}

func findFunc(f *ast.File, recv, name string) *ast.FuncDecl {
	for _, d := range f.Decls {
		fd, ok := d.(*ast.FuncDecl)
		if !ok || fd.Name.Name != name {
			continue
		}
		if recv == "" {
			if fd.Recv == nil {
				return fd
			}
			continue
		}
		if fd.Recv == nil || len(fd.Recv.List) != 1 {
			continue
		}
		t := fd.Recv.List[0].Type
		if s, ok := t.(*ast.StarExpr); ok {
			t = s.X
		}
		if id, ok := t.(*ast.Ident); ok && id.Name == recv {
			return fd
		}
	}
	return nil
}

func must(fd *ast.FuncDecl, what string) *ast.FuncDecl {
	if fd == nil {
		die("%s not found", what)
	}
	return fd
}

// table translates each statement of a body through an exact-shape table
func table(what string, body []ast.Stmt, shapes map[string]string) []string {
	var out []string
	for _, st := range body {
		s := norm(st)
		c, ok := shapes[s]
		if !ok {
			die("%s: statement outside the translated fragment: %s", what, s)
		}
		out = append(out, c)
	}
	return out
}

func coqList(l []string) string { return "[" + strings.Join(l, "; ") + "]" }

var reKill = regexp.MustCompile(`^err:=syscall\.Kill\((-?)pid,syscall\.(\w+)\)$`)
var reIfRet = regexp.MustCompile(`^if.*\{return.*\}$`)

// platform file: setGroupAttrToCmd and killProcessGroup
func platform(path string) (setpgid, hook, waitdelay, killgroup string) {
	f := parse(path)
	sg := must(findFunc(f, "", "setGroupAttrToCmd"), path+": setGroupAttrToCmd")
	setpgid, hook, waitdelay = "", "CHNone", "false"
	for _, st := range sg.Body.List {
		s := norm(st)
		switch {
		case strings.HasPrefix(s, "c.SysProcAttr=&syscall.SysProcAttr{"):
			as := st.(*ast.AssignStmt)
			lit := as.Rhs[0].(*ast.UnaryExpr).X.(*ast.CompositeLit)
			for _, e := range lit.Elts {
				kv, ok := e.(*ast.KeyValueExpr)
				if !ok {
					die("%s: SysProcAttr literal with a positional field", path)
				}
				k, v := norm(kv.Key), norm(kv.Value)
				switch k {
				case "Setpgid":
					switch v {
					case "true":
						setpgid = "SpTrue"
					case "false":
						setpgid = "SpFalse"
					default:
						setpgid = "SpExpr"
					}
				case "Pdeathsig":
					if v != "syscall.SIGKILL" {
						die("%s: Pdeathsig is %s", path, v)
					}
				default:
					die("%s: SysProcAttr field outside the translated fragment: %s", path, k)
				}
			}
			if setpgid == "" {
				setpgid = "SpFalse"
			}
		case s == "c.Cancel=func()error{returnkillProcessGroup(c.Process.Pid)}":
			hook = "CHGroupKill"
		case strings.HasPrefix(s, "c.Cancel="):
			hook = "CHOther"
		case strings.HasPrefix(s, "c.WaitDelay="):
			waitdelay = "true"
		default:
			die("%s: setGroupAttrToCmd: statement outside the translated fragment: %s", path, s)
		}
	}
	if setpgid == "" {
		die("%s: setGroupAttrToCmd does not set SysProcAttr", path)
	}
	kg := must(findFunc(f, "", "killProcessGroup"), path+": killProcessGroup")
	if got := norm(kg.Type); got != "func(pidint)error" {
		die("%s: unexpected signature of killProcessGroup: %s", path, got)
	}
	var ks []string
	for _, st := range kg.Body.List {
		s := norm(st)
		switch {
		case s == "ifpid<=0{returnnil}":
			ks = append(ks, "KGuardNonPositive")
		case reKill.MatchString(s):
			m := reKill.FindStringSubmatch(s)
			sig := map[string]string{"SIGKILL": "SigKill", "SIGTERM": "SigTerm"}[m[2]]
			if sig == "" {
				sig = "SigOther"
			}
			neg := "false"
			if m[1] == "-" {
				neg = "true"
			}
			ks = append(ks, fmt.Sprintf("KKill %s %s", neg, sig))
		case s == "iferrors.Is(err,syscall.ESRCH){returnos.ErrProcessDone}":
			ks = append(ks, "KMapEsrch")
		case s == "returnerr":
			ks = append(ks, "KReturnErr")
		case reIfRet.MatchString(s):
			ks = append(ks, "KGuardOther") // any other early return (e.g. a test that pid leads a group)
		default:
			die("%s: killProcessGroup: statement outside the translated fragment: %s", path, s)
		}
	}
	return setpgid, hook, waitdelay, coqList(ks)
}

func killSteps(what string, body []ast.Stmt) []string {
	var out []string
	for _, st := range body {
		s := norm(st)
		switch {
		case s == "pid:=subprocess.Pid":
			out = append(out, "QPid")
		case s == "process,err:=proc.FindProcess(ctx,pid)":
			out = append(out, "QLookup")
		case s == "ifprocess!=nil&&err==nil{_=process.KillWithChildren(ctx)}":
			out = append(out, "QKillTreeIfFound")
		case s == "_=killProcessGroup(pid)":
			out = append(out, "QGroupKill")
		case strings.HasPrefix(s, "parallelisation.ScheduleAfter(ctx,"):
			// a kill scheduled for later: parallelisation.ScheduleAfter(ctx, d, func(time.Time) { ... })
			call := st.(*ast.ExprStmt).X.(*ast.CallExpr)
			fl, ok := call.Args[len(call.Args)-1].(*ast.FuncLit)
			if !ok {
				die("%s: ScheduleAfter without a function literal", what)
			}
			var inner []string
			for _, ist := range fl.Body.List {
				is := norm(ist)
				switch is {
				case "process,err:=proc.FindProcess(ctx,pid)":
					inner = append(inner, "QLookup")
				case "ifprocess==nil||err!=nil{return}":
				case "_=process.KillWithChildren(ctx)", "ifprocess!=nil&&err==nil{_=process.KillWithChildren(ctx)}":
					inner = append(inner, "QKillTreeIfFound")
				case "_=killProcessGroup(pid)":
					inner = append(inner, "QGroupKill")
				default:
					die("%s: scheduled kill: statement outside the translated fragment: %s", what, is)
				}
			}
			out = append(out, "QScheduled "+coqList(inner))
		default:
			die("%s: kill block: statement outside the translated fragment: %s", what, s)
		}
	}
	return out
}

func main() {
	repo := os.Getenv("VERIF_REPO")
	if repo == "" {
		repo = "/repo"
	}
	out := "coq/C05/Gen.v"
	if len(os.Args) > 1 {
		out = os.Args[1]
	}
	dir := filepath.Join(repo, "utils/subprocess")

	var sp, hk, wd, kg []string
	for _, pf := range []string{"command_wrapper_linux.go", "command_wrapper_darwin.go"} {
		a, b, c, d := platform(filepath.Join(dir, pf))
		sp, hk, wd, kg = append(sp, a), append(hk, b), append(wd, c), append(kg, d)
	}

	cw := parse(filepath.Join(dir, "command_wrapper.go"))
	// ---- createCommand must call setGroupAttrToCmd on the command it builds with exec.CommandContext
	cc := must(findFunc(cw, "command", "createCommand"), "command.createCommand")
	ccs := norm(cc.Body)
	if !strings.Contains(ccs, "cmd:=exec.CommandContext(cmdCtx,newCmd,newArgs...)") || !strings.Contains(ccs, "setGroupAttrToCmd(cmd)returncmd}") {
		die("createCommand does not build the command with exec.CommandContext(cmdCtx, ...) and finish with setGroupAttrToCmd(cmd)")
	}
	gc := must(findFunc(cw, "command", "GetCmd"), "command.GetCmd")
	if norm(gc.Body) != "{c.cmdWrapper.Set(cmdCtx,c.createCommand(cmdCtx))return&c.cmdWrapper}" {
		die("GetCmd does not store the command together with its context")
	}
	// ---- cmdWrapper.Run
	run := must(findFunc(cw, "cmdWrapper", "Run"), "cmdWrapper.Run")
	runBody := table("cmdWrapper.Run", run.Body.List, map[string]string{
		"c.mu.RLock()":        "RLockR",
		"deferc.mu.RUnlock()": "RDeferUnlockR",
		`ifc.cmd==nil{returnfmt.Errorf("%w:undefinedcommand",commonerrors.ErrUndefined)}`:     "RNilCheck",
		"returnConvertCommandError(c.cmd.Run())":                                              "RRunPlain",
		"err:=c.cmd.Start()":                                                                  "RStart",
		"iferr!=nil{returnConvertCommandError(err)}":                                          "RRetIfErr",
		"ctx,pid,done:=c.ctx,c.cmd.Process.Pid,make(chanstruct{})":                            "RCapture",
		"ifctx!=nil{gofunc(){select{case<-ctx.Done():_=killProcessGroup(pid)case<-done:}}()}": "RWatcher",
		"err=c.cmd.Wait()": "RWait",
		"close(done)":      "RCloseDone",
		"ifctx!=nil&&ctx.Err()!=nil{_=killProcessGroup(pid)}": "RPostKill",
		"c.flushOutput()":                "RFlush",
		"returnConvertCommandError(err)": "RReturn",
	})
	// ---- cmdWrapper.Stop
	stop := must(findFunc(cw, "cmdWrapper", "Stop"), "cmdWrapper.Stop")
	var stopBody []string
	for _, st := range stop.Body.List {
		s := norm(st)
		switch {
		case s == "c.mu.RLock()":
			stopBody = append(stopBody, "SLockR")
		case s == "deferc.mu.RUnlock()":
			stopBody = append(stopBody, "SDeferUnlockR")
		case s == `ifc.cmd==nil{returnfmt.Errorf("%w:undefinedcommand",commonerrors.ErrUndefined)}`:
			stopBody = append(stopBody, "SNilCheck")
		case s == "subprocess:=c.cmd.Process":
			stopBody = append(stopBody, "SGetProcess")
		case s == "ctx,cancel:=context.WithCancel(context.Background())":
			stopBody = append(stopBody, "SCtx")
		case s == "defercancel()":
			stopBody = append(stopBody, "SDeferCancel")
		case strings.HasPrefix(s, "ifsubprocess!=nil{"):
			is := st.(*ast.IfStmt)
			if is.Else != nil || is.Init != nil {
				die("cmdWrapper.Stop: unexpected shape of the kill block")
			}
			stopBody = append(stopBody, "SIfProcess "+coqList(killSteps("cmdWrapper.Stop", is.Body.List)))
		case s == "_=c.cmd.Wait()":
			stopBody = append(stopBody, "SWait")
		case s == "c.flushOutput()":
			stopBody = append(stopBody, "SFlush")
		case s == "returnnil":
			stopBody = append(stopBody, "SReturnNil")
		default:
			die("cmdWrapper.Stop: statement outside the translated fragment: %s", s)
		}
	}

	ex := parse(filepath.Join(dir, "executor.go"))
	// ---- Subprocess.Cancel
	cancelBody := table("Subprocess.Cancel", must(findFunc(ex, "Subprocess", "Cancel"), "Subprocess.Cancel").Body.List, map[string]string{
		"s.processMonitoring.CancelSubprocess()": "CCancelMonitoring",
		"s.mu.Lock()":                            "CLock",
		"s.mu.RLock()":                           "CRLock",
		"defers.mu.Unlock()":                     "CDeferUnlock",
		"defers.mu.RUnlock()":                    "CDeferUnlock",
	})
	// ---- IsOn, Stop, Restart, runProcessMonitoring: exact
	exact := func(recv, name, body string) {
		fd := must(findFunc(ex, recv, name), recv+"."+name)
		if norm(fd.Body) != body {
			die("%s.%s is not %s", recv, name, body)
		}
	}
	exact("Subprocess", "IsOn", "{returns.isRunning.Load()&&s.processMonitoring.IsOn()}")
	exact("Subprocess", "Stop", "{returns.stop(true)}")
	exact("Subprocess", "Restart", "{err=s.stop(false)iferr!=nil{return}returns.Start()}")
	exact("Subprocess", "runProcessMonitoring", "{s.processMonitoring.RunMonitoring(s.Stop)}")
	exact("Subprocess", "getCmd", "{returns.command.GetCmd(s.processMonitoring.ProcessContext())}")
	// ---- Subprocess.stop
	stopOuter := table("Subprocess.stop", must(findFunc(ex, "Subprocess", "stop"), "Subprocess.stop").Body.List, map[string]string{
		"if!s.IsOn(){return}": "OIfNotOnReturn",
		"ifs.command==nil||s.messaging==nil{err=s.check()return}": "OIfUndefinedReturn",
		"err=s.Check()":                       "OCheck",
		"iferr!=nil{return}":                  "ORetIfErr",
		"s.mu.Lock()":                         "OLock",
		"defers.mu.Unlock()":                  "ODeferUnlock",
		"deferfunc(){ifcancel{s.Cancel()}}()": "ODeferCancelIf",
		"s.messaging.LogStopping()":           "OLogStopping",
		"err=s.getCmd().Stop()":               "OCmdStop",
		"s.command.Reset()":                   "OCmdReset",
		"s.isRunning.Store(false)":            "ORunningFalse",
		"s.messaging.LogEnd(nil)":             "OLogEnd",
		"return":                              "OReturn",
	})
	// ---- Subprocess.Execute
	var execBody []string
	for _, st := range must(findFunc(ex, "Subprocess", "Execute"), "Subprocess.Execute").Body.List {
		s := norm(st)
		m := map[string]string{
			"err=s.Check()":               "ECheck",
			"iferr!=nil{return}":          "ERetIfErr",
			"s.mu.Lock()":                 "ELock",
			"s.mu.Unlock()":               "EUnlock",
			"defers.mu.Unlock()":          "EDeferUnlock",
			"defers.Cancel()":             "EDeferCancel",
			"s.processMonitoring.Reset()": "EMonReset",
			"s.command.Reset()":           "ECmdReset",
			"s.messaging.LogStart()":      "ELogStart",
			"s.runProcessMonitoring()":    "ERunMonitoring",
			"cmd:=s.getCmd()":             "EGetCmd",
			"s.isRunning.Store(true)":     "ERunningTrue",
			"err=cmd.Run()":               "ERun",
			"s.isRunning.Store(false)":    "ERunningFalse",
			"s.messaging.LogEnd(err)":     "ELogEnd",
			"return":                      "EReturn",
			`ifs.IsOn(){returnfmt.Errorf("processisalreadystarted:%w",commonerrors.ErrConflict)}`: "EIfOnConflict",
		}
		if c, ok := m[s]; ok {
			execBody = append(execBody, c)
			continue
		}
		if strings.HasPrefix(s, "iferr!=nil{ctxErr:=parallelisation.DetermineContextError(s.processMonitoring.ProcessContext())") {
			// rewrites the error of an interrupted command only (no return, no lock operation, no flag)
			bad := false
			ast.Inspect(st, func(n ast.Node) bool {
				switch x := n.(type) {
				case *ast.ReturnStmt, *ast.GoStmt, *ast.DeferStmt:
					bad = true
				case *ast.SelectorExpr:
					if x.Sel.Name == "Lock" || x.Sel.Name == "Unlock" || x.Sel.Name == "Store" {
						bad = true
					}
				}
				return true
			})
			if bad {
				die("Subprocess.Execute: the error-rewriting block does more than rewriting the error")
			}
			execBody = append(execBody, "ECtxErrWrap")
			continue
		}
		die("Subprocess.Execute: statement outside the translated fragment: %s", s)
	}

	// ---- Subprocess.Start
	var startBody []string
	for _, st := range must(findFunc(ex, "Subprocess", "Start"), "Subprocess.Start").Body.List {
		s := norm(st)
		m := map[string]string{
			"ifs.IsOn(){return}":       "TIfOnReturn",
			"s.mu.Lock()":              "TLock",
			"s.mu.Unlock()":            "TUnlock",
			"defers.mu.Unlock()":       "TDeferUnlock",
			"err=s.check()":            "TCheck",
			"iferr!=nil{return}":       "TRetIfErr",
			"s.reset()":                "TReset",
			"s.runProcessMonitoring()": "TRunMonitoring",
			"cmd:=s.getCmd()":          "TGetCmd",
			"err=cmd.Start()":          "TCmdStart",
			"pid,err:=cmd.Pid()":       "TPid",
			"s.isRunning.Store(true)":  "TRunningTrue",
			"s.messaging.SetPid(pid)":  "TSetPid",
			"s.messaging.LogStarted()": "TLogStarted",
			"return":                   "TReturn",
			"iferr!=nil{s.messaging.LogFailedStart(err)s.isRunning.Store(false)s.Cancel()return}": "TFailStart",
		}
		c, ok := m[s]
		if !ok {
			die("Subprocess.Start: statement outside the translated fragment: %s", s)
		}
		startBody = append(startBody, c)
	}
	// ---- Subprocess.check / command.Check: they may only look at the object (calls allowed: fmt.Errorf, the two Check
	// methods of its parts); anything else (a look-up in the file system, the PATH, ...) can make stop() give up
	checkPure := "true"
	pureCalls := map[string]bool{"fmt.Errorf": true, "s.command.Check": true} // s.messaging.Check asks the loggers, which are not the object's
	for _, fd := range []*ast.FuncDecl{must(findFunc(ex, "Subprocess", "check"), "Subprocess.check"), must(findFunc(cw, "command", "Check"), "command.Check")} {
		ast.Inspect(fd.Body, func(n ast.Node) bool {
			if c, ok := n.(*ast.CallExpr); ok && !pureCalls[norm(c.Fun)] {
				checkPure = "false"
			}
			return true
		})
	}
	exact("Subprocess", "Check", "{s.mu.RLock()defers.mu.RUnlock()returns.check()}")

	// ---- the monitor goroutine
	mo := parse(filepath.Join(dir, "monitoring.go"))
	rpm := must(findFunc(mo, "subprocessMonitoring", "runProcessMonitoring"), "subprocessMonitoring.runProcessMonitoring")
	var monBody []string
	// subprocessMonitoring.Reset: a new cancellable context; it must not clear monitoringStopping
	for _, st := range must(findFunc(mo, "subprocessMonitoring", "Reset"), "subprocessMonitoring.Reset").Body.List {
		switch s := norm(st); s {
		case "s.monitoringStopping.Store(false)":
			monBody = append(monBody, "MResetClearsStopping")
		case "subctx,cancelFunc:=context.WithCancel(s.parentCtx)", "s.cancellableCtx.Store(subctx)", "s.cancelStore.RegisterCancelFunction(cancelFunc)":
		default:
			die("subprocessMonitoring.Reset: statement outside the translated fragment: %s", s)
		}
	}
	stmts := rpm.Body.List
	for len(stmts) > 1 {
		switch s := norm(stmts[0]); s {
		case "s.monitoringOn.Store(true)":
			monBody = append(monBody, "MOnTrueSync") // set before the goroutine exists: IsOn() is true as soon as Start returns
		case "s.monitoringStopping.Store(false)":
			monBody = append(monBody, "MLaunchClearsStopping") // only a new monitor ends the stopping phase of the previous one
		default:
			die("runProcessMonitoring: statement outside the translated fragment: %s", s)
		}
		stmts = stmts[1:]
	}
	if len(stmts) != 1 {
		die("runProcessMonitoring is not a single go statement")
	}
	gs, ok := stmts[0].(*ast.GoStmt)
	if !ok {
		die("runProcessMonitoring is not a single go statement")
	}
	fl, ok := gs.Call.Fun.(*ast.FuncLit)
	if !ok || norm(fl.Type) != "func(m*subprocessMonitoring,stopfunc()error)" || len(gs.Call.Args) != 2 || norm(gs.Call.Args[0]) != "s" || norm(gs.Call.Args[1]) != "stopProcess" {
		die("runProcessMonitoring: unexpected goroutine signature / arguments")
	}
	for _, st := range fl.Body.List {
		s := norm(st)
		switch {
		case s == "m.monitoringOn.Store(true)":
			monBody = append(monBody, "MOnTrue")
		case s == "<-s.ProcessContext().Done()":
			monBody = append(monBody, "MWaitCtx")
		case s == "m.CancelSubprocess()":
			monBody = append(monBody, "MCancel")
		case s == "_=stop()":
			monBody = append(monBody, "MStop")
		case strings.HasPrefix(s, "if") && strings.Contains(s, "stop()"):
			monBody = append(monBody, "MStopGuarded")
		case s == "m.monitoringOn.Store(false)":
			monBody = append(monBody, "MOnFalse")
		default:
			die("monitor goroutine: statement outside the translated fragment: %s", s)
		}
	}
	exact2 := func(f *ast.File, recv, name, body string) {
		fd := must(findFunc(f, recv, name), recv+"."+name)
		if norm(fd.Body) != body {
			die("%s.%s is not %s", recv, name, body)
		}
	}
	exact2(mo, "subprocessMonitoring", "CancelSubprocess", "{s.monitoringStopping.Store(true)s.cancelStore.Cancel()}")
	exact2(mo, "subprocessMonitoring", "IsOn", "{returns.monitoringOn.Load()}")
	exact2(mo, "subprocessMonitoring", "RunMonitoring", "{timeoutCtx,cancel:=context.WithTimeout(s.parentCtx,time.Second)defercancel()fors.IsOn(){if!s.monitoringStopping.Load(){return}parallelisation.SleepWithContext(timeoutCtx,time.Millisecond)err:=parallelisation.DetermineContextError(timeoutCtx)iferr!=nil{return}}s.Reset()s.runProcessMonitoring(stopProcess)}")

	var b strings.Builder
	b.WriteString("(* GENERATED by translator-c05/cmd/facts2coq from utils/subprocess/{command_wrapper,command_wrapper_linux,command_wrapper_darwin,\n")
	b.WriteString("   executor,monitoring}.go of the repository's working tree — DO NOT EDIT; regenerated on every run of ./check C05. *)\n")
	b.WriteString("From Coq Require Import List.\nImport ListNotations.\nFrom GU Require Import C05.Model.\n\n")
	b.WriteString("Definition gen_facts : facts := mkFacts\n")
	fmt.Fprintf(&b, "  (* Setpgid, per platform file (linux, darwin) *) %s\n", coqList(sp))
	fmt.Fprintf(&b, "  (* cmd.Cancel hook *) %s\n", coqList(hk))
	fmt.Fprintf(&b, "  (* WaitDelay assigned *) %s\n", coqList(wd))
	fmt.Fprintf(&b, "  (* killProcessGroup *) %s\n", coqList(kg))
	fmt.Fprintf(&b, "  (* cmdWrapper.Run *) %s\n", coqList(runBody))
	fmt.Fprintf(&b, "  (* cmdWrapper.Stop *) %s\n", coqList(stopBody))
	fmt.Fprintf(&b, "  (* Subprocess.Cancel *) %s\n", coqList(cancelBody))
	fmt.Fprintf(&b, "  (* Subprocess.stop *) %s\n", coqList(stopOuter))
	fmt.Fprintf(&b, "  (* Subprocess.Execute *) %s\n", coqList(execBody))
	fmt.Fprintf(&b, "  (* monitor goroutine *) %s\n", coqList(monBody))
	fmt.Fprintf(&b, "  (* Subprocess.Start *) %s\n", coqList(startBody))
	fmt.Fprintf(&b, "  (* check()/Check() look at the object only *) %s.\n", checkPure)
	old, _ := os.ReadFile(out)
	if string(old) == b.String() {
		return
	}
	if err := os.WriteFile(out, []byte(b.String()), 0o644); err != nil {
		die("%v", err)
	}
}
