module verif/translator-c05

go 1.23
