// vfs2coq extracts from utils/filesystem/files.go the FACTS that the mechanised model of property C06 (coq/C06/VfsGen.v) is
// parameterised by, and writes them as a record to coq/C06/Gen.v (+ facts.json), only when the content changes.
// go/ast only. Every anchored function is matched statement by statement against a closed list of shapes; anything else is
// an error (exit 1): the tie between model and source must break rather than guess.
//
//	MoveWithContext   the ORDER of its checks (src == dest; dest == ""; !Exists(src); destination resolution; same place;
//	                  isPathWithin; non-empty directory target) and whether the isPathWithin test stands alone
//	move              context test first; IsDir(<which>) after the refused rename
//	moveFolder        RemoveWithContext(src) outside the `if !empty` block
//	CopyBetweenFSWithExclusionRegexes
//	                  the into-itself / over-own-parent guards and their place relative to the MkDir of the destination;
//	                  the same-file guard's operand (dst or dest); the file-over-directory refusal
//	copyFile…         the deferred Closes registered right after each open
//	WriteToFile       the open flags; the deferred Close right after the open
//	Stat / GenericOpen / OpenFile / CreateFile   checkPathIsNotEmpty before the back end is reached
package main

import (
	"bytes"
	"encoding/json"
	"fmt"
	"go/ast"
	"go/parser"
	"go/printer"
	"go/token"
	"os"
	"path/filepath"
	"strings"
)

var fset = token.NewFileSet()

func die(pos token.Pos, format string, a ...any) {
	where := ""
	if pos.IsValid() {
		p := fset.Position(pos)
		where = fmt.Sprintf("%s:%d: ", filepath.Base(p.Filename), p.Line)
	}
	fmt.Fprintf(os.Stderr, "vfs2coq: %sunsupported shape: %s\n", where, fmt.Sprintf(format, a...))
	os.Exit(1)
}

func src(n ast.Node) string {
	var b bytes.Buffer
	_ = printer.Fprint(&b, fset, n)
	return strings.Join(strings.Fields(b.String()), " ")
}

type funcs map[string]*ast.FuncDecl

func load(path string) funcs {
	into := funcs{}
	f, err := parser.ParseFile(fset, path, nil, 0)
	if err != nil {
		fmt.Fprintln(os.Stderr, "vfs2coq:", err)
		os.Exit(1)
	}
	for _, d := range f.Decls {
		fd, ok := d.(*ast.FuncDecl)
		if !ok || fd.Body == nil {
			continue
		}
		name := fd.Name.Name
		if fd.Recv != nil && len(fd.Recv.List) == 1 {
			t := fd.Recv.List[0].Type
			if st, ok := t.(*ast.StarExpr); ok {
				t = st.X
			}
			if id, ok := t.(*ast.Ident); ok {
				name = id.Name + "." + name
			}
		}
		into[name] = fd
	}
	return into
}

func get(fs funcs, name string) *ast.FuncDecl {
	fd, ok := fs[name]
	if !ok {
		die(token.NoPos, "function %s not found", name)
	}
	return fd
}

// isErrReturnIf: `if err != nil { return }`
func isErrReturnIf(s ast.Stmt) bool {
	is, ok := s.(*ast.IfStmt)
	if !ok || is.Init != nil || is.Else != nil || src(is.Cond) != "err != nil" || len(is.Body.List) != 1 {
		return false
	}
	r, ok := is.Body.List[0].(*ast.ReturnStmt)
	return ok && (len(r.Results) == 0 || src(r) == "return nil, err" || src(r) == "return err")
}

// guardIf: `if <cond> { [err = …<kind>…;] return }` — returns the condition and the text of the body
func guardIf(s ast.Stmt) (cond string, body string, ok bool) {
	is, isIf := s.(*ast.IfStmt)
	if !isIf || is.Init != nil || is.Else != nil || len(is.Body.List) == 0 {
		return "", "", false
	}
	if _, isRet := is.Body.List[len(is.Body.List)-1].(*ast.ReturnStmt); !isRet {
		return "", "", false
	}
	return src(is.Cond), src(is.Body), true
}

type facts struct {
	MoveGuards                 []string `json:"move_guards"`
	MoveWithinPlain            bool     `json:"move_within_plain"`
	MoveCtxFirst               bool     `json:"move_ctx_first"`
	MoveFallbackIsDirSrc       bool     `json:"move_fallback_isdir_src"`
	MoveFolderAlwaysRemovesSrc bool     `json:"movefolder_always_removes_src"`
	CopyGuardsBeforeCreate     bool     `json:"copy_guards_before_create"`
	CopyIntoItselfGuard        bool     `json:"copy_into_itself_guard"`
	CopyOverParentGuard        bool     `json:"copy_over_parent_guard"`
	CopySameFileResolved       bool     `json:"copy_samefile_resolved"`
	CopyFileOverDirRefused     bool     `json:"copy_file_over_dir_refused"`
	CopyFileSrcCloseDeferred   bool     `json:"copyfile_src_close_deferred"`
	CopyFileDstCloseDeferred   bool     `json:"copyfile_dst_close_deferred"`
	WriteCreate                bool     `json:"write_create"`
	WriteTrunc                 bool     `json:"write_trunc"`
	WriteCloseDeferred         bool     `json:"write_close_deferred"`
	EmptyStat                  bool     `json:"empty_stat"`
	EmptyOpen                  bool     `json:"empty_open"`
	EmptyOpenFile              bool     `json:"empty_openfile"`
	EmptyCreate                bool     `json:"empty_create"`
	MkdirAllRechecks           bool     `json:"mkdirall_rechecks"`
}

// ---- MoveWithContext ----

func moveWithContext(fd *ast.FuncDecl, f *facts) {
	body := fd.Body.List
	seen := map[string]bool{}
	emit := func(g string, pos token.Pos) {
		if seen[g] {
			die(pos, "MoveWithContext: check %s appears twice", g)
		}
		seen[g] = true
		f.MoveGuards = append(f.MoveGuards, g)
	}
	resolveParts := 0
	done := false
	for i := 0; i < len(body); i++ {
		s := body[i]
		text := src(s)
		if done {
			if text != "return" {
				die(s.Pos(), "MoveWithContext: statement after the call of move: %s", text)
			}
			continue
		}
		switch {
		case text == "err = fs.checkWhetherUnderlyingResourceIsClosed()" || text == "err = parallelisation.DetermineContextError(ctx)":
			if i+1 >= len(body) || !isErrReturnIf(body[i+1]) {
				die(s.Pos(), "MoveWithContext: %s not followed by `if err != nil { return }`", text)
			}
			if len(f.MoveGuards) > 0 {
				die(s.Pos(), "MoveWithContext: preamble statement after a check")
			}
			i++
		case text == "isSrcDir, err := fs.IsDir(src)":
			if i+1 >= len(body) || !isErrReturnIf(body[i+1]) {
				die(s.Pos(), "MoveWithContext: IsDir(src) not followed by `if err != nil { return }`")
			}
			if !seen["GMissingSrc"] {
				die(s.Pos(), "MoveWithContext: IsDir(src) before the existence check of src") // IsDir of a missing path is an error of its own
			}
			i++
		case text == "target := dest":
			resolveParts |= 1
		case text == "isDestDir := false":
			resolveParts |= 2
		case text == "if fs.Exists(dest) { isDestDir, err = fs.IsDir(dest) if err != nil { return } } else { isDestDir = EndsWithPathSeparator(fs, dest) }":
			if resolveParts != 3 {
				die(s.Pos(), "MoveWithContext: destination kind decided before `target := dest; isDestDir := false`")
			}
			resolveParts |= 4
		case text == "if isDestDir { target = filepath.Join(dest, filepath.Base(src)) }":
			if resolveParts != 7 {
				die(s.Pos(), "MoveWithContext: re-targeting without the three statements that decide isDestDir")
			}
			emit("GResolve", s.Pos())
		case text == "err = fs.move(ctx, src, target)":
			if resolveParts&1 == 0 {
				die(s.Pos(), "MoveWithContext: move called with an undefined target")
			}
			done = true
		default:
			if isNonEmptyTargetIf(s) {
				is := s.(*ast.IfStmt)
				bt := src(is.Body)
				if is.Else != nil || !strings.Contains(bt, "if fs.Exists(target) {") || !strings.Contains(bt, "fs.IsDir(target)") ||
					!strings.Contains(bt, "fs.IsEmpty(target)") || !strings.Contains(bt, "if !empty {") || !strings.Contains(bt, "commonerrors.ErrExists") {
					die(s.Pos(), "MoveWithContext: non-empty-target check of an unsupported form")
				}
				emit("GNonEmptyTarget", s.Pos())
				continue
			}
			cond, b, ok := guardIf(s)
			if !ok {
				// the isPathWithin test nested under another condition: if <c> { if isPathWithin(fs, src, target) { …invalid…; return } }
				if is, isIf := s.(*ast.IfStmt); isIf && is.Init == nil && is.Else == nil && len(is.Body.List) == 1 {
					if c2, b2, ok2 := guardIf(is.Body.List[0]); ok2 && c2 == "isPathWithin(fs, src, target)" && strings.Contains(b2, "commonerrors.ErrInvalid") {
						f.MoveWithinPlain = false
						emit("GWithin", s.Pos())
						continue
					}
				}
				die(s.Pos(), "MoveWithContext: %s", text)
			}
			switch {
			case cond == "src == dest" && b == "{ return }":
				emit("GSameString", s.Pos())
			case cond == `dest == ""` && strings.Contains(b, "commonerrors.ErrUndefined"):
				emit("GEmptyDest", s.Pos())
			case cond == "!fs.Exists(src)" && strings.Contains(b, "commonerrors.ErrNotFound"):
				emit("GMissingSrc", s.Pos())
			case cond == "filepath.Clean(src) == filepath.Clean(target)" && b == "{ return }":
				emit("GSamePlace", s.Pos())
			case strings.Contains(cond, "isPathWithin(fs, src, target)") && strings.Contains(b, "commonerrors.ErrInvalid"):
				f.MoveWithinPlain = cond == "isPathWithin(fs, src, target)"
				if !f.MoveWithinPlain {
					// a conjunction with another test: the only accepted form
					parts := strings.Split(cond, " && ")
					okc := false
					for _, p := range parts {
						if p == "isPathWithin(fs, src, target)" {
							okc = true
						}
					}
					if !okc {
						die(s.Pos(), "MoveWithContext: isPathWithin test in an unsupported condition: %s", cond)
					}
				}
				emit("GWithin", s.Pos())
			default:
				die(s.Pos(), "MoveWithContext: %s", text)
			}
		}
	}
	if !done {
		die(fd.Pos(), "MoveWithContext: no call of fs.move(ctx, src, target)")
	}
	if !seen["GWithin"] {
		f.MoveWithinPlain = false
	}
}

// the nonEmptyTarget statement is an `if isSrcDir { … }` whose body does not END with a return: handle it before guardIf
func isNonEmptyTargetIf(s ast.Stmt) bool {
	is, ok := s.(*ast.IfStmt)
	return ok && is.Init == nil && src(is.Cond) == "isSrcDir"
}

// ---- move ----

func move(fd *ast.FuncDecl, f *facts) {
	body := fd.Body.List
	want := []string{
		"err = parallelisation.DetermineContextError(ctx)", "#err",
		"if src == dest { return }",
		"err = fs.MkDir(filepath.Dir(dest))", "#err",
		"err = ConvertFileSystemError(fs.vfs.Rename(src, dest))",
		"if err == nil { return }",
		"isDir, err := fs.IsDir(@)", "#err",
		"if isDir { err = fs.moveFolder(ctx, src, dest) } else { err = fs.moveFile(ctx, src, dest) }",
		"return",
	}
	// the context test may have been moved or dropped: accept the list with the first two entries anywhere before the rename or absent
	texts := []string{}
	for _, s := range body {
		if isErrReturnIf(s) {
			texts = append(texts, "#err")
		} else {
			texts = append(texts, src(s))
		}
	}
	f.MoveCtxFirst = len(texts) >= 2 && texts[0] == want[0] && texts[1] == "#err"
	// remove the context test wherever it stands, then the rest must match exactly
	rest := []string{}
	for i := 0; i < len(texts); i++ {
		if texts[i] == want[0] && i+1 < len(texts) && texts[i+1] == "#err" {
			i++
			continue
		}
		rest = append(rest, texts[i])
	}
	w := want[2:]
	if len(rest) != len(w) {
		die(fd.Pos(), "move: %d statements, %d expected: %v", len(rest), len(w), rest)
	}
	for i := range w {
		if strings.HasPrefix(w[i], "isDir, err := fs.IsDir(") {
			switch rest[i] {
			case "isDir, err := fs.IsDir(src)":
				f.MoveFallbackIsDirSrc = true
			case "isDir, err := fs.IsDir(dest)":
				f.MoveFallbackIsDirSrc = false
			default:
				die(fd.Pos(), "move: %s", rest[i])
			}
			continue
		}
		if rest[i] != w[i] {
			die(fd.Pos(), "move: statement %q where %q was expected", rest[i], w[i])
		}
	}
}

// ---- moveFolder ----

func moveFolder(fd *ast.FuncDecl, f *facts) {
	body := fd.Body.List
	texts := []string{}
	for _, s := range body {
		if isErrReturnIf(s) {
			texts = append(texts, "#err")
		} else {
			texts = append(texts, src(s))
		}
	}
	loop := "files, err := fs.Ls(src) if err != nil { if IsPathNotExist(err) { return nil } return err } for i := range files { f := files[i] err = fs.move(ctx, filepath.Join(src, f), filepath.Join(dest, f)) if err != nil { return err } }"
	remove := "err = fs.RemoveWithContext(ctx, src)"
	pre := []string{"err = fs.checkWhetherUnderlyingResourceIsClosed()", "#err", "err = parallelisation.DetermineContextError(ctx)", "#err",
		"err = fs.MkDir(dest)", "#err", "empty, err := fs.IsEmpty(src)", "#err"}
	if len(texts) < len(pre) {
		die(fd.Pos(), "moveFolder: too short")
	}
	for i := range pre {
		if texts[i] != pre[i] {
			die(body[i].Pos(), "moveFolder: statement %q where %q was expected", texts[i], pre[i])
		}
	}
	tail := texts[len(pre):]
	switch {
	case len(tail) == 3 && tail[0] == "if !empty { "+loop+" }" && tail[1] == remove && tail[2] == "return":
		f.MoveFolderAlwaysRemovesSrc = true
	case len(tail) == 2 && tail[0] == "if !empty { "+loop+" "+remove+" }" && tail[1] == "return":
		f.MoveFolderAlwaysRemovesSrc = false
	case len(tail) == 3 && tail[0] == "if !empty { "+loop+" "+remove+" if err != nil { return } }" && tail[1] == "return":
		f.MoveFolderAlwaysRemovesSrc = false
	default:
		die(fd.Pos(), "moveFolder: unsupported tail: %v", tail)
	}
}

// ---- CopyBetweenFSWithExclusionRegexes ----

func copyBetween(fd *ast.FuncDecl, f *facts) {
	body := fd.Body.List
	texts := make([]string, len(body))
	for i, s := range body {
		if isErrReturnIf(s) {
			texts[i] = "#err"
		} else {
			texts[i] = src(s)
		}
	}
	find := func(t string) int {
		for i, x := range texts {
			if x == t {
				return i
			}
		}
		return -1
	}
	must := func(t string) int {
		i := find(t)
		if i < 0 {
			die(fd.Pos(), "Copy: statement not found: %s", t)
		}
		return i
	}
	iSame := must("if srcFs == destFs && src == dest { return }")
	iExists := -1
	for i, x := range texts {
		if strings.HasPrefix(x, "if !srcFs.Exists(src) {") && strings.Contains(x, "commonerrors.ErrNotFound") {
			iExists = i
		}
	}
	if iExists < 0 {
		die(fd.Pos(), "Copy: no existence check of src")
	}
	iIsDir := must("isSrcDir, err := srcFs.IsDir(src)")
	iDestExists := must("destExists := destFs.Exists(dest)")
	must("isDestDir := false")
	iDestKind := must("if destExists { isDestDir, err = destFs.IsDir(dest) if err != nil { return } }")
	create := "if !destExists { if isSrcDir { isDestDir = true err = destFs.MkDir(dest) } else { if EndsWithPathSeparator(destFs, dest) { isDestDir = true err = destFs.MkDir(dest) } else { isDestDir = false err = destFs.MkDir(filepath.Dir(dest)) } } if err != nil { return } }"
	iCreate := must(create)
	must("var dst string")
	iDst := must("if !(isSrcDir && !destExists) && isDestDir { dst = filepath.Join(dest, filepath.Base(src)) } else { dst = dest }")
	if !(iSame < iExists && iExists < iIsDir && iIsDir < iDestExists && iDestExists < iDestKind && iDestKind < iCreate && iCreate < iDst) {
		die(fd.Pos(), "Copy: unsupported order of the statements that resolve the destination")
	}
	// the guards
	iGuards := -1
	for i, x := range texts {
		if strings.Contains(x, "isPathWithin(") && i != iDst {
			if iGuards >= 0 {
				die(body[i].Pos(), "Copy: isPathWithin tested in two statements")
			}
			iGuards = i
		}
	}
	f.CopyGuardsBeforeCreate = true
	if iGuards >= 0 {
		is, ok := body[iGuards].(*ast.IfStmt)
		if !ok || is.Else != nil || src(is.Cond) != "isSrcDir && srcFs == destFs" {
			die(body[iGuards].Pos(), "Copy: guards not under `if isSrcDir && srcFs == destFs`")
		}
		if iGuards <= iDestKind {
			die(body[iGuards].Pos(), "Copy: guards before the kind of the destination is known")
		}
		inner := is.Body.List
		if len(inner) < 2 || src(inner[0]) != "target := dest" || src(inner[1]) != "if destExists && isDestDir { target = filepath.Join(dest, filepath.Base(src)) }" {
			die(is.Pos(), "Copy: the guards' target is not computed as expected")
		}
		for _, g := range inner[2:] {
			cond, b, ok := guardIf(g)
			if !ok || !strings.Contains(b, "commonerrors.ErrInvalid") {
				die(g.Pos(), "Copy: unsupported guard %s", src(g))
			}
			switch cond {
			case "isPathWithin(srcFs, src, target)":
				f.CopyIntoItselfGuard = true
			case "isPathWithin(srcFs, target, src)":
				f.CopyOverParentGuard = true
			default:
				die(g.Pos(), "Copy: unsupported guard condition %s", cond)
			}
		}
		f.CopyGuardsBeforeCreate = iGuards < iCreate
		if iGuards > iDst {
			die(body[iGuards].Pos(), "Copy: guards after the resolution of dst")
		}
	}
	// the dispatch
	last := body[len(body)-1]
	if src(last) != "return" {
		die(last.Pos(), "Copy: last statement is not return")
	}
	disp, ok := body[len(body)-2].(*ast.IfStmt)
	if !ok || src(disp.Cond) != "isSrcDir" || disp.Else == nil {
		die(body[len(body)-2].Pos(), "Copy: no `if isSrcDir { copyFolder } else { copyFile }`")
	}
	if src(disp.Body) != "{ err = copyFolderBetweenFSWithExclusionRegexes(ctx, srcFs, src, destFs, dst, exclusionSrcFsRegexes, exclusionDestFsRegexes) }" {
		die(disp.Pos(), "Copy: directory branch: %s", src(disp.Body))
	}
	eb, ok := disp.Else.(*ast.BlockStmt)
	if !ok || len(eb.List) == 0 {
		die(disp.Pos(), "Copy: file branch is not a block")
	}
	sawSame := false
	for i, s := range eb.List {
		t := src(s)
		switch {
		case i == len(eb.List)-1:
			if t != "err = copyFileBetweenFSWithExclusionPatternsWithExclusionRegexes(ctx, srcFs, src, destFs, dst, exclusionSrcFsRegexes, exclusionDestFsRegexes)" {
				die(s.Pos(), "Copy: file branch does not end with copyFile(src, dst): %s", t)
			}
		case t == "if srcFs == destFs && filepath.Clean(src) == filepath.Clean(dst) { return }":
			sawSame, f.CopySameFileResolved = true, true
		case t == "if srcFs == destFs && filepath.Clean(src) == filepath.Clean(dest) { return }":
			sawSame, f.CopySameFileResolved = true, false
		case t == "if destFs.Exists(dst) { isDstDir, subErr := destFs.IsDir(dst) if subErr != nil { return subErr } if isDstDir { err = fmt.Errorf(\"%w: cannot overwrite directory [%v] with file [%v]\", commonerrors.ErrInvalid, dst, src) return } }":
			if !sawSame {
				die(s.Pos(), "Copy: the directory refusal precedes the same-file guard")
			}
			f.CopyFileOverDirRefused = true
		default:
			die(s.Pos(), "Copy: file branch: %s", t)
		}
	}
	if !sawSame {
		die(disp.Pos(), "Copy: no same-file guard in the file branch")
	}
	// everything else at top level must be one of the known statements
	known := map[string]bool{"#err": true, "return": true, "var dst string": true, "isDestDir := false": true,
		"if IsPathExcluded(src, exclusionSrcFsRegexes...) || IsPathExcluded(dest, exclusionDestFsRegexes...) { return }": true,
		"err = parallelisation.DetermineContextError(ctx)": true}
	for i, x := range texts {
		if known[x] || i == iSame || i == iExists || i == iIsDir || i == iDestExists || i == iDestKind || i == iCreate || i == iDst || i == iGuards || i == len(body)-2 {
			continue
		}
		if strings.HasPrefix(x, `if dest == "" {`) && strings.Contains(x, "commonerrors.ErrUndefined") && i < iExists {
			continue
		}
		die(body[i].Pos(), "Copy: %s", x)
	}
}

// ---- copyFile… ----

func copyFile(fd *ast.FuncDecl, f *facts) {
	body := fd.Body.List
	texts := make([]string, len(body))
	for i, s := range body {
		texts[i] = src(s)
	}
	idx := func(t string) int {
		for i, x := range texts {
			if x == t {
				return i
			}
		}
		return -1
	}
	iIn := idx("inputFile, err := srcFs.GenericOpen(src)")
	iOut := idx("outputFile, err := destFs.CreateFile(dest)")
	if iIn < 0 || iOut < 0 || iIn > iOut {
		die(fd.Pos(), "copyFile: opens not found in the expected order")
	}
	errIf := func(i int) bool {
		if i >= len(body) {
			return false
		}
		is, ok := body[i].(*ast.IfStmt)
		return ok && src(is.Cond) == "err != nil" && strings.TrimSpace(src(is.Body)) == "{ return }"
	}
	if !errIf(iIn+1) || !errIf(iOut+1) {
		die(fd.Pos(), "copyFile: an open is not followed by `if err != nil { return }`")
	}
	dIn, dOut, dBoth := "defer func() { _ = inputFile.Close() }()", "defer func() { _ = outputFile.Close() }()", ""
	_ = dBoth
	f.CopyFileSrcCloseDeferred = iIn+2 < len(body) && texts[iIn+2] == dIn
	f.CopyFileDstCloseDeferred = iOut+2 < len(body) && (texts[iOut+2] == dOut ||
		texts[iOut+2] == "defer func() { _ = inputFile.Close() _ = outputFile.Close() }()" || texts[iOut+2] == "defer func() { _ = outputFile.Close() _ = inputFile.Close() }()")
	// closed list of statements
	for i, x := range texts {
		switch {
		case i == iIn || i == iOut || i == iIn+1 || i == iOut+1:
		case strings.HasPrefix(x, "defer func() {") && strings.Contains(x, ".Close()") && !strings.Contains(x, "err"):
		case x == "if IsPathExcluded(src, exclusionSrcFsRegexes...) || IsPathExcluded(dest, exclusionDestFsRegexes...) { return }":
		case x == "err = parallelisation.DetermineContextError(ctx)" || x == "_, err = safeio.CopyDataWithContext(ctx, inputFile, outputFile)" ||
			x == "err = inputFile.Close()" || x == "err = outputFile.Close()" || x == "return" || errIf(i):
		default:
			die(body[i].Pos(), "copyFile: %s", x)
		}
	}
	if idx("err = inputFile.Close()") < 0 || idx("err = outputFile.Close()") < 0 {
		die(fd.Pos(), "copyFile: the explicit Closes on the success path are missing")
	}
}

// ---- WriteToFile ----

func writeToFile(fd *ast.FuncDecl, f *facts) {
	body := fd.Body.List
	iOpen := -1
	for i, s := range body {
		if strings.HasPrefix(src(s), "f, err := fs.OpenFile(filename, ") {
			iOpen = i
		}
	}
	if iOpen < 0 {
		die(fd.Pos(), "WriteToFile: no `f, err := fs.OpenFile(filename, …)`")
	}
	call := body[iOpen].(*ast.AssignStmt).Rhs[0].(*ast.CallExpr)
	if len(call.Args) != 3 {
		die(call.Pos(), "WriteToFile: OpenFile with %d arguments", len(call.Args))
	}
	flags := map[string]bool{}
	var walk func(e ast.Expr)
	walk = func(e ast.Expr) {
		switch x := e.(type) {
		case *ast.BinaryExpr:
			if x.Op != token.OR {
				die(x.Pos(), "WriteToFile: open flags combined with %s", x.Op)
			}
			walk(x.X)
			walk(x.Y)
		case *ast.SelectorExpr:
			if src(x.X) != "os" {
				die(x.Pos(), "WriteToFile: flag %s", src(x))
			}
			flags[x.Sel.Name] = true
		case *ast.ParenExpr:
			walk(x.X)
		default:
			die(e.Pos(), "WriteToFile: open flags: %s", src(e))
		}
	}
	walk(call.Args[1])
	for k := range flags {
		switch k {
		case "O_WRONLY", "O_RDWR", "O_CREATE", "O_TRUNC":
		default:
			die(call.Pos(), "WriteToFile: unsupported open flag %s", k)
		}
	}
	if !flags["O_WRONLY"] && !flags["O_RDWR"] {
		die(call.Pos(), "WriteToFile: the file is not opened for writing")
	}
	f.WriteCreate, f.WriteTrunc = flags["O_CREATE"], flags["O_TRUNC"]
	if iOpen+1 >= len(body) || !isErrReturnIf(body[iOpen+1]) {
		die(body[iOpen].Pos(), "WriteToFile: the open is not followed by `if err != nil { return }`")
	}
	f.WriteCloseDeferred = iOpen+2 < len(body) && src(body[iOpen+2]) == "defer func() { _ = f.Close() }()"
	want := map[string]bool{"err = fs.checkWhetherUnderlyingResourceIsClosed()": true, "err = parallelisation.DetermineContextError(ctx)": true,
		"defer func() { _ = f.Close() }()": true, "written, err = safeio.CopyDataWithContext(ctx, reader, f)": true,
		"if written == 0 { err = fmt.Errorf(\"%w: no bytes were written\", commonerrors.ErrEmpty) return }": true, "err = f.Close()": true, "return": true}
	sawClose := false
	for i, s := range body {
		t := src(s)
		if i == iOpen || isErrReturnIf(s) {
			continue
		}
		if !want[t] {
			die(s.Pos(), "WriteToFile: %s", t)
		}
		if t == "err = f.Close()" {
			sawClose = true
		}
	}
	if !sawClose {
		die(fd.Pos(), "WriteToFile: no explicit Close on the success path")
	}
}

// ---- empty-path guards ----

func emptyGuard(fd *ast.FuncDecl, arg string) bool {
	guard := "if err := checkPathIsNotEmpty(" + arg + "); err != nil { return nil, err }"
	for _, s := range fd.Body.List {
		t := src(s)
		if t == guard {
			return true
		}
		if strings.Contains(t, "fs.vfs.") {
			return false // the back end is reached first
		}
	}
	return false
}

func checkPathHelper(fd *ast.FuncDecl) {
	if src(fd.Body) != `{ if path == "" { return commonerrors.New(commonerrors.ErrNotFound, "empty path") } return nil }` {
		die(fd.Pos(), "checkPathIsNotEmpty: %s", src(fd.Body))
	}
}

func isPathWithinHelper(fd *ast.FuncDecl) {
	if src(fd.Body) != `{ parent = filepath.Clean(parent) path = filepath.Clean(path) if parent == path { return true } sep := string(fs.PathSeparator()) return strings.HasPrefix(path, strings.TrimSuffix(parent, sep)+sep) }` {
		die(fd.Pos(), "isPathWithin: %s", src(fd.Body))
	}
}

// ---- MkDirAll ----

func mkDirAll(fd *ast.FuncDecl, f *facts) {
	want := []string{"err = fs.checkWhetherUnderlyingResourceIsClosed()", "#err",
		`if dir == "" { return fmt.Errorf("missing path: %w", commonerrors.ErrUndefined) }`,
		"if fs.Exists(dir) { return }",
		"err = ConvertFileSystemError(fs.vfs.MkdirAll(dir, perm))"}
	texts := []string{}
	for _, s := range fd.Body.List {
		if isErrReturnIf(s) {
			texts = append(texts, "#err")
		} else {
			texts = append(texts, src(s))
		}
	}
	if len(texts) < len(want)+1 {
		die(fd.Pos(), "MkDirAll: too short: %v", texts)
	}
	for i := range want {
		if texts[i] != want[i] {
			die(fd.Body.List[i].Pos(), "MkDirAll: statement %q where %q was expected", texts[i], want[i])
		}
	}
	tail := texts[len(want):]
	switch {
	case len(tail) == 2 && tail[0] == "if err != nil && fs.Exists(dir) { err = nil }" && tail[1] == "return":
		f.MkdirAllRechecks = true
	case len(tail) == 1 && tail[0] == "return":
		f.MkdirAllRechecks = false
	default:
		die(fd.Pos(), "MkDirAll: unsupported tail: %v", tail)
	}
}

func b(v bool) string {
	if v {
		return "true"
	}
	return "false"
}

func writeIfChanged(path string, content []byte) {
	if old, err := os.ReadFile(path); err == nil && bytes.Equal(old, content) {
		return
	}
	if err := os.WriteFile(path, content, 0o644); err != nil {
		fmt.Fprintln(os.Stderr, "vfs2coq:", err)
		os.Exit(1)
	}
}

func main() {
	if len(os.Args) != 2 {
		fmt.Fprintln(os.Stderr, "usage: vfs2coq <output directory (coq/C06)>")
		os.Exit(2)
	}
	repo := os.Getenv("VERIF_REPO")
	if repo == "" {
		repo = "/repo"
	}
	fs := load(filepath.Join(repo, "utils", "filesystem", "files.go"))
	var f facts
	// the non-empty-target statement does not end with a return: recognised before the generic guard shapes
	mw := get(fs, "VFS.MoveWithContext")
	moveWithContext(mw, &f)
	move(get(fs, "VFS.move"), &f)
	moveFolder(get(fs, "VFS.moveFolder"), &f)
	copyBetween(get(fs, "CopyBetweenFSWithExclusionRegexes"), &f)
	copyFile(get(fs, "copyFileBetweenFSWithExclusionPatternsWithExclusionRegexes"), &f)
	writeToFile(get(fs, "VFS.WriteToFile"), &f)
	if _, ok := fs["checkPathIsNotEmpty"]; ok {
		checkPathHelper(fs["checkPathIsNotEmpty"])
		f.EmptyStat = emptyGuard(get(fs, "VFS.Stat"), "name")
		f.EmptyOpen = emptyGuard(get(fs, "VFS.GenericOpen"), "name")
		f.EmptyOpenFile = emptyGuard(get(fs, "VFS.OpenFile"), "name")
		f.EmptyCreate = emptyGuard(get(fs, "VFS.CreateFile"), "name")
	}
	isPathWithinHelper(get(fs, "isPathWithin"))
	mkDirAll(get(fs, "VFS.MkDirAll"), &f)

	var v bytes.Buffer
	v.WriteString("(* GENERATED by translator-c06/cmd/vfs2coq from utils/filesystem/files.go of the repository's working tree — DO NOT EDIT;\n   regenerated on every run of ./check C06.  The facts the mechanised model M (VfsGen.v) is parameterised by. *)\n")
	v.WriteString("From Coq Require Import List.\nImport ListNotations.\nFrom GU Require Import C06.Facts.\n\nDefinition gen_facts : facts := {|\n")
	fmt.Fprintf(&v, "  f_move_guards := [%s];\n", strings.Join(f.MoveGuards, "; "))
	for _, kv := range [][2]string{
		{"f_move_within_plain", b(f.MoveWithinPlain)}, {"f_move_ctx_first", b(f.MoveCtxFirst)},
		{"f_move_fallback_isdir_src", b(f.MoveFallbackIsDirSrc)}, {"f_movefolder_always_removes_src", b(f.MoveFolderAlwaysRemovesSrc)},
		{"f_copy_guards_before_create", b(f.CopyGuardsBeforeCreate)}, {"f_copy_into_itself_guard", b(f.CopyIntoItselfGuard)},
		{"f_copy_over_parent_guard", b(f.CopyOverParentGuard)}, {"f_copy_samefile_resolved", b(f.CopySameFileResolved)},
		{"f_copy_file_over_dir_refused", b(f.CopyFileOverDirRefused)}, {"f_copyfile_src_close_deferred", b(f.CopyFileSrcCloseDeferred)},
		{"f_copyfile_dst_close_deferred", b(f.CopyFileDstCloseDeferred)}, {"f_write_create", b(f.WriteCreate)}, {"f_write_trunc", b(f.WriteTrunc)},
		{"f_write_close_deferred", b(f.WriteCloseDeferred)}, {"f_empty_stat", b(f.EmptyStat)}, {"f_empty_open", b(f.EmptyOpen)},
		{"f_empty_openfile", b(f.EmptyOpenFile)}} {
		fmt.Fprintf(&v, "  %s := %s;\n", kv[0], kv[1])
	}
	fmt.Fprintf(&v, "  f_empty_create := %s;\n  f_mkdirall_rechecks := %s\n|}.\n", b(f.EmptyCreate), b(f.MkdirAllRechecks))
	writeIfChanged(filepath.Join(os.Args[1], "Gen.v"), v.Bytes())
	js, _ := json.MarshalIndent(f, "", " ")
	writeIfChanged(filepath.Join(os.Args[1], "facts.json"), append(js, '\n'))
}
