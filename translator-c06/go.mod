module verif/translatorc06

go 1.24.1
