module verif/translatorc07

go 1.24.1
