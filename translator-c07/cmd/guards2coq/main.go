// guards2coq extracts the closed-resource guard table behind property C07 (closed_serves_nothing) from the
// filesystem package: for every method of *VFS one abstract statement per TOP-LEVEL statement of its body
//
//	AGuard GCond|GOther   err = fs.checkWhetherUnderlyingResourceIsClosed() ; if err != nil { return ... }
//	ACallProp m           ..., err (:)= fs.m(...) ; if err != nil { return }          (error propagated unchanged)
//	ARetCall m            return fs.m(...)    or    err = fs.m(...) ; return   /  last statement of the body
//	ACall m               fs.m(...) occurs somewhere in the statement (result handling not analysed), in source order
//	ABackend              the statement mentions the backend field fs.vfs
//	AEscape               the receiver itself is passed to another function (which may call any exported method)
//	ARet                  any other top-level return
//
// Statements that mention neither the receiver's methods nor the backend are dropped (they cannot reach the archive).
// It writes coq/C07/Gen.v (only when the content changes).  The repository is $VERIF_REPO (default /repo).
// A method whose receiver is unnamed, or a guard call in a shape other than the two above, is an error (exit 1):
// the tie must break rather than guess.
package main

import (
	"fmt"
	"go/ast"
	"go/parser"
	"go/token"
	"os"
	"path/filepath"
	"sort"
	"strconv"
	"strings"
)

const guardName = "checkWhetherUnderlyingResourceIsClosed"
const backendField = "vfs"

var fset = token.NewFileSet()

func die(pos token.Pos, format string, a ...any) {
	where := ""
	if pos.IsValid() {
		where = fset.Position(pos).String() + ": "
	}
	fmt.Fprintf(os.Stderr, "guards2coq: %sunsupported shape: %s\n", where, fmt.Sprintf(format, a...))
	os.Exit(1)
}

// recvCall: e is  recv.m(...)  -> m
func recvCall(e ast.Expr, recv string) (string, bool) {
	c, ok := e.(*ast.CallExpr)
	if !ok {
		return "", false
	}
	s, ok := c.Fun.(*ast.SelectorExpr)
	if !ok {
		return "", false
	}
	id, ok := s.X.(*ast.Ident)
	if !ok || id.Name != recv {
		return "", false
	}
	return s.Sel.Name, true
}

// inner collects, in source order, the receiver-method calls and backend mentions inside n
func inner(n ast.Node, recv string) (out []string) {
	ast.Inspect(n, func(x ast.Node) bool {
		switch v := x.(type) {
		case *ast.CallExpr:
			if m, ok := recvCall(v, recv); ok {
				if m == guardName {
					die(v.Pos(), "guard call in a position the translator does not understand")
				}
				out = append(out, "ACall \""+m+"\"")
			}
			for _, a := range v.Args {
				if id, ok := a.(*ast.Ident); ok && id.Name == recv {
					out = append(out, "AEscape")
					break
				}
			}
		case *ast.SelectorExpr:
			if id, ok := v.X.(*ast.Ident); ok && id.Name == recv && v.Sel.Name == backendField {
				out = append(out, "ABackend")
			}
		}
		return true
	})
	return
}

// isErrNotNilReturn: `if err != nil { return ... }` ; how = "bare" | "err" | "other"
func isErrNotNilReturn(s ast.Stmt, errName string) (how string, ok bool) {
	is, ok := s.(*ast.IfStmt)
	if !ok || is.Init != nil || is.Else != nil {
		return "", false
	}
	be, ok := is.Cond.(*ast.BinaryExpr)
	if !ok || be.Op != token.NEQ {
		return "", false
	}
	x, ok1 := be.X.(*ast.Ident)
	y, ok2 := be.Y.(*ast.Ident)
	if !ok1 || !ok2 || x.Name != errName || y.Name != "nil" {
		return "", false
	}
	if len(is.Body.List) != 1 {
		return "", false
	}
	r, ok := is.Body.List[0].(*ast.ReturnStmt)
	if !ok {
		return "", false
	}
	if len(r.Results) == 0 {
		return "bare", true
	}
	if id, ok := r.Results[len(r.Results)-1].(*ast.Ident); ok && id.Name == errName {
		return "err", true
	}
	return "other", true
}

// assignedCall: `lhs..., e (:)= recv.m(...)`  -> m, name of the last lhs
func assignedCall(s ast.Stmt, recv string) (m string, last string, ok bool) {
	as, ok := s.(*ast.AssignStmt)
	if !ok || len(as.Rhs) != 1 {
		return "", "", false
	}
	m, ok = recvCall(as.Rhs[0], recv)
	if !ok {
		return "", "", false
	}
	id, ok := as.Lhs[len(as.Lhs)-1].(*ast.Ident)
	if !ok {
		return "", "", false
	}
	// arguments of the call must not themselves reach the receiver (kept simple: they are inspected separately)
	return m, id.Name, true
}

func hasNamedErrResult(fd *ast.FuncDecl) bool {
	if fd.Type.Results == nil {
		return false
	}
	for _, f := range fd.Type.Results.List {
		for _, n := range f.Names {
			if n.Name == "err" {
				return true
			}
		}
	}
	return false
}

func translate(fd *ast.FuncDecl, recv string) []string {
	var out []string
	body := fd.Body.List
	for i := 0; i < len(body); i++ {
		s := body[i]
		// guard / propagated call
		if m, errName, ok := assignedCall(s, recv); ok {
			argInner := []string{}
			for _, a := range s.(*ast.AssignStmt).Rhs[0].(*ast.CallExpr).Args {
				argInner = append(argInner, inner(a, recv)...)
			}
			if i+1 < len(body) {
				if how, ok2 := isErrNotNilReturn(body[i+1], errName); ok2 {
					out = append(out, argInner...)
					if m == guardName {
						if how == "other" {
							out = append(out, "AGuard GOther")
						} else {
							out = append(out, "AGuard GCond")
						}
					} else if how == "other" {
						out = append(out, "ACall \""+m+"\"", "ARet")
					} else {
						out = append(out, "ACallProp \""+m+"\"")
					}
					i++
					continue
				}
				if r, ok2 := body[i+1].(*ast.ReturnStmt); ok2 && len(r.Results) == 0 && errName == "err" && hasNamedErrResult(fd) && m != guardName {
					out = append(out, argInner...)
					out = append(out, "ARetCall \""+m+"\"")
					i++
					continue
				}
			} else if errName == "err" && hasNamedErrResult(fd) && m != guardName {
				out = append(out, argInner...)
				out = append(out, "ARetCall \""+m+"\"")
				continue
			}
			if m == guardName {
				die(s.Pos(), "guard call in %s not followed by `if err != nil { return }`", fd.Name.Name)
			}
		}
		if r, ok := s.(*ast.ReturnStmt); ok {
			if len(r.Results) == 1 {
				if m, ok := recvCall(r.Results[0], recv); ok && m != guardName {
					for _, a := range r.Results[0].(*ast.CallExpr).Args {
						out = append(out, inner(a, recv)...)
					}
					out = append(out, "ARetCall \""+m+"\"")
					continue
				}
			}
			out = append(out, inner(s, recv)...)
			out = append(out, "ARet")
			continue
		}
		out = append(out, inner(s, recv)...)
	}
	return out
}

// analyseVFSClose: the body of VFS.Close must be a single return of the resource's Close(), optionally wrapped in
// ConvertFileSystemError (which maps nil to nil and non-nil to non-nil).
func analyseVFSClose(files []string) string {
	for _, f := range files {
		if strings.HasSuffix(f, "_test.go") {
			continue
		}
		af, err := parser.ParseFile(fset, f, nil, parser.SkipObjectResolution)
		if err != nil {
			continue
		}
		for _, d := range af.Decls {
			fd, ok := d.(*ast.FuncDecl)
			if !ok || fd.Recv == nil || fd.Name.Name != "Close" || fd.Body == nil || len(fd.Recv.List) != 1 {
				continue
			}
			st, ok := fd.Recv.List[0].Type.(*ast.StarExpr)
			if !ok {
				continue
			}
			if id, ok := st.X.(*ast.Ident); !ok || id.Name != "VFS" {
				continue
			}
			if len(fd.Body.List) != 1 {
				return "VUnknown"
			}
			r, ok := fd.Body.List[0].(*ast.ReturnStmt)
			if !ok || len(r.Results) != 1 {
				return "VUnknown"
			}
			e := r.Results[0]
			if c, ok := e.(*ast.CallExpr); ok {
				if id, ok := c.Fun.(*ast.Ident); ok && id.Name == "ConvertFileSystemError" && len(c.Args) == 1 {
					e = c.Args[0]
				}
			}
			c, ok := e.(*ast.CallExpr)
			if !ok || len(c.Args) != 0 {
				return "VUnknown"
			}
			sel, ok := c.Fun.(*ast.SelectorExpr)
			if !ok || sel.Sel.Name != "Close" {
				return "VUnknown"
			}
			inner, ok := sel.X.(*ast.SelectorExpr)
			if !ok || inner.Sel.Name != "resourceInUse" {
				return "VUnknown"
			}
			return "VPropagate"
		}
	}
	return "VUnknown"
}

// analyseResourceClose: in closeableResource.Close, walking the top-level statements in order, every return met
// before the top-level assignment `c.closed = true` must be `return err` inside `if err != nil`, that assignment must
// exist, and the last statement must be `return nil`.
func analyseResourceClose(file string) string {
	af, err := parser.ParseFile(fset, file, nil, parser.SkipObjectResolution)
	if err != nil {
		return "RUnknown"
	}
	for _, d := range af.Decls {
		fd, ok := d.(*ast.FuncDecl)
		if !ok || fd.Recv == nil || fd.Name.Name != "Close" || fd.Body == nil || len(fd.Recv.List) != 1 {
			continue
		}
		st, ok := fd.Recv.List[0].Type.(*ast.StarExpr)
		if !ok {
			continue
		}
		if id, ok := st.X.(*ast.Ident); !ok || id.Name != "closeableResource" {
			continue
		}
		flagSet := false
		good := true
		for i, s := range fd.Body.List {
			if as, ok := s.(*ast.AssignStmt); ok && len(as.Lhs) == 1 && len(as.Rhs) == 1 {
				if sel, ok := as.Lhs[0].(*ast.SelectorExpr); ok && sel.Sel.Name == "closed" {
					if id, ok := as.Rhs[0].(*ast.Ident); ok && id.Name == "true" {
						flagSet = true
					} else {
						good = false
					}
					continue
				}
			}
			if i == len(fd.Body.List)-1 {
				r, ok := s.(*ast.ReturnStmt)
				if !ok || len(r.Results) != 1 || !flagSet {
					good = false
				} else if id, ok := r.Results[0].(*ast.Ident); !ok || id.Name != "nil" {
					good = false
				}
				continue
			}
			if !flagSet {
				// returns before the flag: only `return err` directly inside `if err != nil { ... }`
				ast.Inspect(s, func(x ast.Node) bool {
					is, ok := x.(*ast.IfStmt)
					if ok {
						if how, ok2 := isErrNotNilReturn(is, "err"); ok2 {
							if how != "err" {
								good = false
							}
							return false
						}
					}
					if _, ok := x.(*ast.ReturnStmt); ok {
						good = false
					}
					return true
				})
			}
		}
		if good && flagSet {
			return "RCloseThenFlag"
		}
		return "RUnknown"
	}
	return "RUnknown"
}

// analyseWalkerSizeCheck: inside ZipWithContextAndLimitsAndExclusionPatterns, the count returned by
// safeio.CopyDataWithContext (n, err := ...) is compared with info.Size() by != in the condition of an if statement whose
// body contains a return.
func analyseWalkerSizeCheck(file string) bool {
	af, err := parser.ParseFile(fset, file, nil, parser.SkipObjectResolution)
	if err != nil {
		return false
	}
	found := false
	for _, d := range af.Decls {
		fd, ok := d.(*ast.FuncDecl)
		if !ok || fd.Name.Name != "ZipWithContextAndLimitsAndExclusionPatterns" || fd.Body == nil {
			continue
		}
		copied := ""
		ast.Inspect(fd.Body, func(x ast.Node) bool {
			if as, ok := x.(*ast.AssignStmt); ok && len(as.Rhs) == 1 && len(as.Lhs) == 2 {
				if c, ok := as.Rhs[0].(*ast.CallExpr); ok {
					if sel, ok := c.Fun.(*ast.SelectorExpr); ok && sel.Sel.Name == "CopyDataWithContext" {
						if id, ok := as.Lhs[0].(*ast.Ident); ok {
							copied = id.Name
						}
					}
				}
			}
			is, ok := x.(*ast.IfStmt)
			if !ok || copied == "" {
				return true
			}
			hasSizeCmp := false
			ast.Inspect(is.Cond, func(y ast.Node) bool {
				be, ok := y.(*ast.BinaryExpr)
				if !ok || be.Op != token.NEQ {
					return true
				}
				isSize := func(e ast.Expr) bool {
					c, ok := e.(*ast.CallExpr)
					if !ok {
						return false
					}
					sel, ok := c.Fun.(*ast.SelectorExpr)
					return ok && sel.Sel.Name == "Size"
				}
				isN := func(e ast.Expr) bool { id, ok := e.(*ast.Ident); return ok && id.Name == copied }
				if (isSize(be.X) && isN(be.Y)) || (isSize(be.Y) && isN(be.X)) {
					hasSizeCmp = true
				}
				return true
			})
			if hasSizeCmp {
				for _, st := range is.Body.List {
					if _, ok := st.(*ast.ReturnStmt); ok {
						found = true
					}
				}
			}
			return true
		})
	}
	return found
}

// analyseZipExtensions: the elements of `ZipFileExtensions = []string{...}` with identifiers resolved through the
// string constants of the same file.  Anything else is an error.
func analyseZipExtensions(file string) []string {
	af, err := parser.ParseFile(fset, file, nil, parser.SkipObjectResolution)
	if err != nil {
		fmt.Fprintln(os.Stderr, "guards2coq:", err)
		os.Exit(1)
	}
	consts := map[string]string{}
	var out []string
	found := false
	for _, d := range af.Decls {
		gd, ok := d.(*ast.GenDecl)
		if !ok {
			continue
		}
		for _, sp := range gd.Specs {
			vs, ok := sp.(*ast.ValueSpec)
			if !ok {
				continue
			}
			for i, n := range vs.Names {
				if i >= len(vs.Values) {
					continue
				}
				if lit, ok := vs.Values[i].(*ast.BasicLit); ok && lit.Kind == token.STRING && gd.Tok == token.CONST {
					if v, err := strconv.Unquote(lit.Value); err == nil {
						consts[n.Name] = v
					}
				}
				if n.Name == "ZipFileExtensions" {
					cl, ok := vs.Values[i].(*ast.CompositeLit)
					if !ok {
						die(vs.Pos(), "ZipFileExtensions is not a composite literal")
					}
					found = true
					for _, e := range cl.Elts {
						switch v := e.(type) {
						case *ast.Ident:
							c, ok := consts[v.Name]
							if !ok {
								die(v.Pos(), "ZipFileExtensions element %s is not a string constant of zip.go", v.Name)
							}
							out = append(out, c)
						case *ast.BasicLit:
							c, err := strconv.Unquote(v.Value)
							if err != nil {
								die(v.Pos(), "ZipFileExtensions element")
							}
							out = append(out, c)
						default:
							die(e.Pos(), "ZipFileExtensions element of unknown shape")
						}
					}
				}
			}
		}
	}
	if !found {
		die(token.NoPos, "ZipFileExtensions not found in zip.go")
	}
	return out
}

func main() {
	repo := os.Getenv("VERIF_REPO")
	if repo == "" {
		repo = "/repo"
	}
	outFile := "coq/C07/Gen.v"
	if len(os.Args) > 1 {
		outFile = os.Args[1]
	}
	dir := filepath.Join(repo, "utils", "filesystem")
	files, err := filepath.Glob(filepath.Join(dir, "*.go"))
	if err != nil || len(files) == 0 {
		fmt.Fprintln(os.Stderr, "guards2coq: no Go files in", dir)
		os.Exit(1)
	}
	sort.Strings(files)
	type entry struct {
		name, where string
		exported    bool
		body        []string
	}
	var table []entry
	seen := map[string]bool{}
	guardDeclared := false
	for _, f := range files {
		if strings.HasSuffix(f, "_test.go") || strings.HasSuffix(f, "_windows.go") {
			continue
		}
		af, err := parser.ParseFile(fset, f, nil, parser.SkipObjectResolution)
		if err != nil {
			fmt.Fprintln(os.Stderr, "guards2coq:", err)
			os.Exit(1)
		}
		for _, d := range af.Decls {
			fd, ok := d.(*ast.FuncDecl)
			if !ok || fd.Recv == nil || len(fd.Recv.List) != 1 || fd.Body == nil {
				continue
			}
			st, ok := fd.Recv.List[0].Type.(*ast.StarExpr)
			if !ok {
				continue
			}
			id, ok := st.X.(*ast.Ident)
			if !ok || id.Name != "VFS" {
				continue
			}
			if len(fd.Recv.List[0].Names) != 1 {
				die(fd.Pos(), "method %s has no receiver name", fd.Name.Name)
			}
			recv := fd.Recv.List[0].Names[0].Name
			if fd.Name.Name == guardName {
				guardDeclared = true
				continue
			}
			if seen[fd.Name.Name] {
				die(fd.Pos(), "method %s declared twice", fd.Name.Name)
			}
			seen[fd.Name.Name] = true
			pos := fset.Position(fd.Pos())
			table = append(table, entry{fd.Name.Name, fmt.Sprintf("%s:%d", filepath.Base(pos.Filename), pos.Line), fd.Name.IsExported(), translate(fd, recv)})
		}
	}
	if !guardDeclared {
		die(token.NoPos, "the guard method %s is not declared", guardName)
	}
	sort.Slice(table, func(i, j int) bool { return table[i].name < table[j].name })
	vfsCloseShape := analyseVFSClose(files)
	resCloseShape := analyseResourceClose(filepath.Join(repo, "utils", "resource", "resource.go"))
	zipExts := analyseZipExtensions(filepath.Join(dir, "zip.go"))
	walkerChecksSize := analyseWalkerSizeCheck(filepath.Join(dir, "zip.go"))
	var b strings.Builder
	b.WriteString("(* GENERATED by translator-c07/cmd/guards2coq from utils/filesystem/*.go — do not edit.\n")
	b.WriteString("   One abstract statement list per method of *VFS (see GuardTypes.v). *)\n")
	b.WriteString("From Coq Require Import List String ZArith.\nImport ListNotations.\nFrom GU Require Import C07.GuardTypes.\nLocal Open Scope string_scope.\n\n")
	b.WriteString("Definition methods : list meth := [\n")
	for i, e := range table {
		sep := ";"
		if i == len(table)-1 {
			sep = ""
		}
		ex := "false"
		if e.exported {
			ex = "true"
		}
		fmt.Fprintf(&b, "  (* %s *) mkM \"%s\" %s [%s]%s\n", e.where, e.name, ex, strings.Join(e.body, "; "), sep)
	}
	b.WriteString("].\n\n")
	b.WriteString("(* files.go VFS.Close: VPropagate = the body is `return [ConvertFileSystemError(]fs.resourceInUse.Close()[)]` *)\n")
	fmt.Fprintf(&b, "Definition vfs_close_shape : vshape := %s.\n", vfsCloseShape)
	b.WriteString("(* resource.go closeableResource.Close: RCloseThenFlag = every return before `c.closed = true` returns the non-nil\n   error of the underlying Close, and the flag assignment precedes the final `return nil` *)\n")
	fmt.Fprintf(&b, "Definition resource_close_shape : rshape := %s.\n", resCloseShape)
	b.WriteString("(* zip.go, walker of ZipWithContextAndLimitsAndExclusionPatterns: an `if` whose condition compares info.Size() with the\n   copied byte count by != and whose body returns an error *)\n")
	fmt.Fprintf(&b, "Definition zip_walker_checks_copied_size : bool := %v.\n", walkerChecksSize)
	b.WriteString("(* zip.go ZipFileExtensions (string constants resolved), as byte lists, in source order *)\n")
	b.WriteString("Definition zip_extensions_gen : list (list Z) := [\n")
	for i, e := range zipExts {
		bs := make([]string, len(e))
		for j := 0; j < len(e); j++ {
			bs[j] = fmt.Sprint(int(e[j]))
		}
		sep := ";"
		if i == len(zipExts)-1 {
			sep = ""
		}
		fmt.Fprintf(&b, "  [%s]%%Z%s (* %s *)\n", strings.Join(bs, "; "), sep, e)
	}
	b.WriteString("].\n")
	content := b.String()
	if old, err := os.ReadFile(outFile); err == nil && string(old) == content {
		return
	}
	if err := os.WriteFile(outFile, []byte(content), 0o644); err != nil {
		fmt.Fprintln(os.Stderr, "guards2coq:", err)
		os.Exit(1)
	}
}
