// convrules2coq extracts the ORDERED rule tables of the error converters behind property C11:
//
//	filesystem.ConvertFileSystemError (utils/filesystem/filesystem.go)
//	safeio.ConvertIOError            (utils/safeio/error.go)
//	proc.ConvertProcessError         (utils/proc/errors.go)
//	platform.ConvertError            (utils/platform/os.go; the first step of ConvertFileSystemError)
//
// For every converter: the chain of calls applied to the argument before the switch (innermost first), then for
// every case of the tag-less switch, in source order, the disjunction of atoms of its condition
//
//	PNil                     err == nil
//	PHelper "os.IsXxx"       os.IsXxx(err), or a predicate isXxx(err) of the package itself ("filesystem.isTimeoutError")
//	PIs [targets]            commonerrors.Any(err, targets...)            (targets by their Go name)
//	PText [strings]          commonerrors.CorrespondTo(err, strings...)   (string constants resolved)
//	PFalse                   commonerrors.Any(x) with no candidate (always false), or IsWindows() && ... (linux model)
//
// and what the case returns
//
//	RSame | RNil | RTarget name | RWrap kind msg (commonerrors.WrapError(kind, err, msg)) | RFmt kind (fmt.Errorf("%w: %v", kind, err.Error()))
//
// It writes coq/C11/GenConv.v (only when the content changes).  Any shape it does not know is an error (exit 1).
package main

import (
	"encoding/json"
	"fmt"
	"go/ast"
	"go/parser"
	"go/token"
	"os"
	"path/filepath"
	"strconv"
	"strings"
)

var fset = token.NewFileSet()

func die(pos token.Pos, format string, a ...any) {
	where := ""
	if pos.IsValid() {
		where = fset.Position(pos).String() + ": "
	}
	fmt.Fprintf(os.Stderr, "convrules2coq: %sunsupported shape: %s\n", where, fmt.Sprintf(format, a...))
	os.Exit(1)
}

type atom struct {
	kind string // nil helper is text false
	name string
	list []string
	note string
}

type result struct {
	kind string // same nil target wrap fmt
	name string // target name / kind name
	msg  string
}

type ccase struct {
	atoms []atom
	res   result
	line  int
}

type converter struct {
	coqName string
	pre     []string
	cases   []ccase
	nilOK   bool // nil is returned for nil before anything else
}

func exprName(e ast.Expr) (string, bool) {
	switch x := e.(type) {
	case *ast.Ident:
		return x.Name, true
	case *ast.SelectorExpr:
		if p, ok := x.X.(*ast.Ident); ok {
			return p.Name + "." + x.Sel.Name, true
		}
	}
	return "", false
}

func callName(e ast.Expr) (*ast.CallExpr, string, bool) {
	c, ok := e.(*ast.CallExpr)
	if !ok {
		return nil, "", false
	}
	n, ok := exprName(c.Fun)
	return c, n, ok
}

func isIdent(e ast.Expr, name string) bool {
	id, ok := e.(*ast.Ident)
	return ok && id.Name == name
}

type ctx struct {
	file   *ast.File
	consts map[string]string
	v      string // the variable holding the error at this point
	pkg    string // the package's own qualifier for unqualified names ("" = keep)
}

func (c *ctx) str(e ast.Expr) string {
	switch x := e.(type) {
	case *ast.BasicLit:
		if x.Kind == token.STRING {
			s, err := strconv.Unquote(x.Value)
			if err != nil {
				die(x.Pos(), "string literal")
			}
			return s
		}
	case *ast.Ident:
		if s, ok := c.consts[x.Name]; ok {
			return s
		}
	}
	die(e.Pos(), "expected a string literal or a string constant of the file")
	return ""
}

func kindName(e ast.Expr) string {
	n, ok := exprName(e)
	if !ok {
		die(e.Pos(), "expected a commonerrors sentinel")
	}
	n = strings.TrimPrefix(n, "commonerrors.")
	if !strings.HasPrefix(n, "Err") || strings.Contains(n, ".") {
		die(e.Pos(), "expected a commonerrors sentinel, got %s", n)
	}
	return n
}

func (c *ctx) atoms(e ast.Expr) []atom {
	switch x := e.(type) {
	case *ast.ParenExpr:
		return c.atoms(x.X)
	case *ast.BinaryExpr:
		switch x.Op {
		case token.LOR:
			return append(c.atoms(x.X), c.atoms(x.Y)...)
		case token.LAND:
			if _, n, ok := callName(x.X); ok && n == "IsWindows" {
				return []atom{{kind: "false", note: "IsWindows() && ... (the model is linux)"}}
			}
			die(x.Pos(), "conjunction other than IsWindows() && ...")
		case token.EQL:
			if isIdent(x.X, c.v) && isIdent(x.Y, "nil") {
				return []atom{{kind: "nil"}}
			}
			die(x.Pos(), "comparison other than %s == nil", c.v)
		}
	case *ast.CallExpr:
		call, n, ok := callName(x)
		if !ok {
			die(x.Pos(), "call of something that is not a named function")
		}
		switch {
		case strings.HasPrefix(n, "os.Is"):
			if len(call.Args) != 1 || !isIdent(call.Args[0], c.v) {
				die(x.Pos(), "%s(%s) expected", n, c.v)
			}
			return []atom{{kind: "helper", name: n}}
		case !strings.Contains(n, ".") && strings.HasPrefix(n, "is") && c.pkg != "":
			// a predicate of the package itself, e.g. isTimeoutError(err): interpreted (by name) in coq/C11/Conv.v
			if len(call.Args) != 1 || !isIdent(call.Args[0], c.v) {
				die(x.Pos(), "%s(%s) expected", n, c.v)
			}
			return []atom{{kind: "helper", name: c.pkg + "." + n}}
		case n == "commonerrors.Any":
			if len(call.Args) == 0 || call.Ellipsis.IsValid() {
				die(x.Pos(), "Any without arguments / with ...")
			}
			if !isIdent(call.Args[0], c.v) {
				if len(call.Args) == 1 {
					t, _ := exprName(call.Args[0])
					return []atom{{kind: "false", note: "commonerrors.Any(" + t + ") has no candidate: always false"}}
				}
				die(x.Pos(), "Any whose first argument is not %s", c.v)
			}
			a := atom{kind: "is"}
			for _, t := range call.Args[1:] {
				tn, ok := exprName(t)
				if !ok {
					die(t.Pos(), "Any target that is not a (qualified) identifier")
				}
				if !strings.Contains(tn, ".") && c.pkg != "" {
					tn = c.pkg + "." + tn
				}
				a.list = append(a.list, tn)
			}
			return []atom{a}
		case n == "commonerrors.CorrespondTo":
			if len(call.Args) < 2 || !isIdent(call.Args[0], c.v) || call.Ellipsis.IsValid() {
				die(x.Pos(), "CorrespondTo(%s, strings...) expected", c.v)
			}
			a := atom{kind: "text"}
			for _, s := range call.Args[1:] {
				a.list = append(a.list, c.str(s))
			}
			return []atom{a}
		}
		die(x.Pos(), "unknown predicate %s", n)
	}
	die(e.Pos(), "unknown condition")
	return nil
}

// wrapCall recognises commonerrors.WrapError(kind, v, "msg")
func (c *ctx) wrapCall(e ast.Expr) (result, bool) {
	call, n, ok := callName(e)
	if !ok || n != "commonerrors.WrapError" {
		return result{}, false
	}
	if len(call.Args) != 3 || !isIdent(call.Args[1], c.v) {
		die(e.Pos(), "WrapError(kind, %s, msg) expected", c.v)
	}
	return result{kind: "wrap", name: kindName(call.Args[0]), msg: c.str(call.Args[2])}, true
}

func (c *ctx) body(stmts []ast.Stmt, pos token.Pos) result {
	if len(stmts) == 0 {
		return result{kind: "same"} // falls out of the switch: the converter returns the (converted) error
	}
	if len(stmts) != 1 {
		die(pos, "case body with %d statements", len(stmts))
	}
	switch s := stmts[0].(type) {
	case *ast.AssignStmt:
		if len(s.Lhs) == 1 && len(s.Rhs) == 1 && s.Tok == token.ASSIGN && isIdent(s.Lhs[0], c.v) {
			if r, ok := c.wrapCall(s.Rhs[0]); ok {
				return r
			}
		}
	case *ast.ReturnStmt:
		if len(s.Results) != 1 {
			die(s.Pos(), "return with %d results", len(s.Results))
		}
		e := s.Results[0]
		if isIdent(e, c.v) {
			return result{kind: "same"}
		}
		if isIdent(e, "nil") {
			return result{kind: "nil"}
		}
		if r, ok := c.wrapCall(e); ok {
			return r
		}
		if call, n, ok := callName(e); ok && n == "fmt.Errorf" {
			if len(call.Args) != 3 {
				die(e.Pos(), "fmt.Errorf with %d arguments", len(call.Args))
			}
			if f := c.str(call.Args[0]); f != "%w: %v" {
				die(e.Pos(), "fmt.Errorf format %q (only \"%%w: %%v\" is modelled)", f)
			}
			ec, en, ok := callName(call.Args[2])
			if !ok || en != c.v+".Error" || len(ec.Args) != 0 {
				die(e.Pos(), "third argument of fmt.Errorf must be %s.Error()", c.v)
			}
			return result{kind: "fmt", name: kindName(call.Args[1])}
		}
		if n, ok := exprName(e); ok && strings.Contains(n, ".") {
			return result{kind: "target", name: n}
		}
	}
	die(pos, "unknown case body")
	return result{}
}

func parseConverter(path, fn, coqName, pkg string) converter {
	f, err := parser.ParseFile(fset, path, nil, 0)
	if err != nil {
		die(token.NoPos, "cannot parse %s: %v", path, err)
	}
	c := &ctx{file: f, consts: map[string]string{}, pkg: pkg}
	for _, d := range f.Decls {
		gd, ok := d.(*ast.GenDecl)
		if !ok || gd.Tok != token.CONST {
			continue
		}
		for _, s := range gd.Specs {
			vs := s.(*ast.ValueSpec)
			for i, n := range vs.Names {
				if i < len(vs.Values) {
					if bl, ok := vs.Values[i].(*ast.BasicLit); ok && bl.Kind == token.STRING {
						c.consts[n.Name], _ = strconv.Unquote(bl.Value)
					}
				}
			}
		}
	}
	var fd *ast.FuncDecl
	for _, d := range f.Decls {
		if x, ok := d.(*ast.FuncDecl); ok && x.Recv == nil && x.Name.Name == fn {
			fd = x
		}
	}
	if fd == nil || fd.Body == nil || len(fd.Type.Params.List) != 1 || len(fd.Type.Params.List[0].Names) != 1 {
		die(token.NoPos, "%s: function with one parameter not found in %s", fn, path)
	}
	c.v = fd.Type.Params.List[0].Names[0].Name
	conv := converter{coqName: coqName}
	seenSwitch := false
	for i, st := range fd.Body.List {
		switch s := st.(type) {
		case *ast.IfStmt:
			// if err == nil { return }
			as := c.atoms(s.Cond)
			if seenSwitch || len(conv.pre) > 0 || s.Init != nil || s.Else != nil || len(as) != 1 || as[0].kind != "nil" || len(s.Body.List) != 1 {
				die(s.Pos(), "%s: only a leading `if %s == nil { return }` is modelled", fn, c.v)
			}
			if r, ok := s.Body.List[0].(*ast.ReturnStmt); !ok || len(r.Results) != 0 {
				die(s.Pos(), "%s: nil guard must be a bare return", fn)
			}
			conv.nilOK = true
		case *ast.AssignStmt:
			// v' = f(g(v))
			if seenSwitch || len(s.Lhs) != 1 || len(s.Rhs) != 1 || (s.Tok != token.ASSIGN && s.Tok != token.DEFINE) {
				die(s.Pos(), "%s: unexpected assignment", fn)
			}
			lhs, ok := s.Lhs[0].(*ast.Ident)
			if !ok {
				die(s.Pos(), "%s: assignment to something that is not a variable", fn)
			}
			var chain []string
			e := s.Rhs[0]
			for {
				call, n, ok := callName(e)
				if !ok {
					break
				}
				if len(call.Args) != 1 {
					die(call.Pos(), "%s: pre-step %s with %d arguments", fn, n, len(call.Args))
				}
				chain = append([]string{n}, chain...)
				e = call.Args[0]
			}
			if !isIdent(e, c.v) || len(chain) == 0 {
				die(s.Pos(), "%s: pre-step must be f(...(%s))", fn, c.v)
			}
			conv.pre = append(conv.pre, chain...)
			c.v = lhs.Name
		case *ast.SwitchStmt:
			if seenSwitch || s.Tag != nil || s.Init != nil {
				die(s.Pos(), "%s: one tag-less switch expected", fn)
			}
			seenSwitch = true
			for _, cl := range s.Body.List {
				cc := cl.(*ast.CaseClause)
				if cc.List == nil { // default
					if r := c.body(cc.Body, cc.Pos()); r.kind != "same" {
						die(cc.Pos(), "%s: the default clause must return %s", fn, c.v)
					}
					if cl != s.Body.List[len(s.Body.List)-1] {
						die(cc.Pos(), "%s: default clause must be last", fn)
					}
					continue
				}
				if len(cc.List) != 1 {
					die(cc.Pos(), "%s: case with %d expressions", fn, len(cc.List))
				}
				conv.cases = append(conv.cases, ccase{atoms: c.atoms(cc.List[0]), res: c.body(cc.Body, cc.Pos()), line: fset.Position(cc.Pos()).Line})
			}
		case *ast.ReturnStmt:
			if i != len(fd.Body.List)-1 {
				die(s.Pos(), "%s: return before the end", fn)
			}
			if len(s.Results) == 1 && !isIdent(s.Results[0], c.v) || len(s.Results) > 1 {
				die(s.Pos(), "%s: final return must return %s", fn, c.v)
			}
			if len(s.Results) == 0 {
				// named result: must be the variable the switch works on
				res := fd.Type.Results
				if res == nil || len(res.List) != 1 || len(res.List[0].Names) != 1 || res.List[0].Names[0].Name != c.v {
					die(s.Pos(), "%s: bare return but the named result is not %s", fn, c.v)
				}
			}
		default:
			die(st.Pos(), "%s: unexpected statement", fn)
		}
	}
	if !seenSwitch {
		die(fd.Pos(), "%s: no switch", fn)
	}
	// a leading `case err == nil: return nil/err` is the nil guard
	return conv
}

func zlist(s string) string {
	parts := make([]string, len(s))
	for i := 0; i < len(s); i++ {
		parts[i] = strconv.Itoa(int(s[i]))
	}
	return "[" + strings.Join(parts, ";") + "]"
}

func coqStr(s string) string { return "\"" + strings.ReplaceAll(s, "\"", "\"\"") + "\"%string" }

func strList(ss []string) string {
	ts := make([]string, len(ss))
	for i, s := range ss {
		ts[i] = coqStr(s)
	}
	return "[" + strings.Join(ts, "; ") + "]"
}

func (a atom) coq() string {
	switch a.kind {
	case "nil":
		return "PNil"
	case "helper":
		return "PHelper " + coqStr(a.name)
	case "is":
		return "PIs " + strList(a.list)
	case "text":
		ts := make([]string, len(a.list))
		for i, s := range a.list {
			ts[i] = zlist(s)
		}
		return "PText [" + strings.Join(ts, "; ") + "] (* " + strings.ReplaceAll(strings.Join(a.list, " | "), "*)", "* )") + " *)"
	default:
		return "PFalse (* " + a.note + " *)"
	}
}

func (r result) coq() string {
	switch r.kind {
	case "same":
		return "RSame"
	case "nil":
		return "RNil"
	case "target":
		return "RTarget " + coqStr(r.name)
	case "wrap":
		return "RWrap " + r.name + " " + zlist(r.msg) + " (* " + strconv.Quote(r.msg) + " *)"
	default:
		return "RFmt " + r.name
	}
}

func main() {
	repo := os.Getenv("VERIF_REPO")
	if repo == "" {
		repo = "/repo"
	}
	outDir := os.Getenv("VERIF_C11_OUT")
	if outDir == "" {
		wd, _ := os.Getwd()
		outDir = filepath.Join(filepath.Dir(wd), "coq", "C11")
	}
	u := filepath.Join(repo, "utils")
	convs := []converter{
		parseConverter(filepath.Join(u, "platform", "os.go"), "ConvertError", "platform", "platform"),
		parseConverter(filepath.Join(u, "filesystem", "filesystem.go"), "ConvertFileSystemError", "fs", "filesystem"),
		parseConverter(filepath.Join(u, "safeio", "error.go"), "ConvertIOError", "io", "safeio"),
		parseConverter(filepath.Join(u, "proc", "errors.go"), "ConvertProcessError", "proc", "proc"),
	}
	var b strings.Builder
	b.WriteString("(* GENERATED by translator-c11/cmd/convrules2coq from utils/platform/os.go, utils/filesystem/filesystem.go,\n   utils/safeio/error.go and utils/proc/errors.go.  Do not edit: regenerated on every run of ./check C11. *)\n")
	b.WriteString("From Coq Require Import List ZArith String.\nImport ListNotations.\nFrom GU Require Import C11.Gen.\nLocal Open Scope Z_scope.\n\n")
	b.WriteString("Inductive catom := PNil | PHelper (name : string) | PIs (targets : list string) | PText (ss : list (list Z)) | PFalse.\n")
	b.WriteString("Inductive cres := RSame | RNil | RTarget (name : string) | RWrap (k : nat) (msg : list Z) | RFmt (k : nat).\n")
	b.WriteString("Definition ccase := (list catom * cres)%type.\n\n")
	for _, c := range convs {
		fmt.Fprintf(&b, "(* steps applied to the argument before the switch, innermost first *)\nDefinition %s_pre : list string := %s.\n", c.coqName, strList(c.pre))
		fmt.Fprintf(&b, "Definition %s_cases : list ccase := [\n", c.coqName)
		for i, cc := range c.cases {
			as := make([]string, len(cc.atoms))
			for j, a := range cc.atoms {
				as[j] = a.coq()
			}
			sep := ";"
			if i == len(c.cases)-1 {
				sep = ""
			}
			fmt.Fprintf(&b, "  ([%s],\n   %s)%s (* line %d *)\n", strings.Join(as, ";\n    "), cc.res.coq(), sep, cc.line)
		}
		b.WriteString("].\n\n")
	}
	if err := os.MkdirAll(outDir, 0o755); err != nil {
		die(token.NoPos, "%v", err)
	}
	path := filepath.Join(outDir, "GenConv.v")
	old, err := os.ReadFile(path)
	changed := err != nil || string(old) != b.String()
	if changed {
		if err := os.WriteFile(path, []byte(b.String()), 0o644); err != nil {
			die(token.NoPos, "%v", err)
		}
	}
	// the triggers of every rule, for the harness (so that its sweeps cannot go stale): per converter the strings of
	// its text predicates, the Go names of its errors.Is targets, its helper predicates and its pre-steps
	type trig struct {
		Pre     []string `json:"pre"`
		Strings []string `json:"strings"`
		Targets []string `json:"targets"`
		Helpers []string `json:"helpers"`
	}
	trigs := map[string]trig{}
	for _, c := range convs {
		t := trig{Pre: c.pre}
		for _, cc := range c.cases {
			for _, a := range cc.atoms {
				switch a.kind {
				case "text":
					t.Strings = append(t.Strings, a.list...)
				case "is":
					t.Targets = append(t.Targets, a.list...)
				case "helper":
					t.Helpers = append(t.Helpers, a.name)
				}
			}
		}
		trigs[c.coqName] = t
	}
	js, _ := json.MarshalIndent(trigs, "", " ")
	js = append(js, '\n')
	jpath := filepath.Join(outDir, "convrules.json")
	if oldj, err := os.ReadFile(jpath); err != nil || string(oldj) != string(js) {
		if err := os.WriteFile(jpath, js, 0o644); err != nil {
			die(token.NoPos, "%v", err)
		}
	}
	n := 0
	for _, c := range convs {
		n += len(c.cases)
	}
	fmt.Printf("convrules2coq: %d converters, %d cases; GenConv.v %s\n", len(convs), n, map[bool]string{true: "rewritten", false: "unchanged"}[changed])
}
