// errkinds2coq extracts the fact table behind property C11 from the commonerrors package:
//   - the sentinel list (identifier, message bytes),
//   - the argument list of IsCommonError,
//   - the ORDERED case list of deserialiseCommonError (empty / exact match / CorrespondTo, tested sentinel, returned sentinel),
//   - the two separators of serialisation.go and the format literal of Errorf.
//
// It writes coq/C11/Gen.v and coq/C11/errkinds.json (only when their content changes).
// Any shape it does not know is an error (exit 1): the tie must break rather than guess.
package main

import (
	"encoding/json"
	"fmt"
	"go/ast"
	"go/parser"
	"go/token"
	"os"
	"path/filepath"
	"strconv"
	"strings"
)

type sentinel struct {
	Name string `json:"name"`
	Text string `json:"text"`
}

type dcase struct {
	Kind    string `json:"kind"` // empty | exact | corr
	Tested  string `json:"tested,omitempty"`
	Returns string `json:"returns,omitempty"` // "" = nil
	Line    int    `json:"line"`
}

type table struct {
	Source       string     `json:"source"`
	Sentinels    []sentinel `json:"sentinels"`
	IsCommonArgs []string   `json:"is_common_args"`
	DeserCases   []dcase    `json:"deser_cases"`
	DeserDefault string     `json:"deser_default"`
	TypeSep      int        `json:"type_reason_separator"`
	MultiSep     int        `json:"multiple_error_separator"`
	ErrorfFormat string     `json:"errorf_format"`
}

var fset = token.NewFileSet()

func die(pos token.Pos, format string, a ...any) {
	where := ""
	if pos.IsValid() {
		where = fset.Position(pos).String() + ": "
	}
	fmt.Fprintf(os.Stderr, "errkinds2coq: %sunsupported shape: %s\n", where, fmt.Sprintf(format, a...))
	os.Exit(1)
}

func ident(e ast.Expr) (string, bool) {
	id, ok := e.(*ast.Ident)
	if !ok {
		return "", false
	}
	return id.Name, true
}

func isCall(e ast.Expr, pkg, fn string) (*ast.CallExpr, bool) {
	c, ok := e.(*ast.CallExpr)
	if !ok {
		return nil, false
	}
	if pkg == "" {
		n, ok := ident(c.Fun)
		return c, ok && n == fn
	}
	sel, ok := c.Fun.(*ast.SelectorExpr)
	if !ok {
		return nil, false
	}
	p, ok := ident(sel.X)
	return c, ok && p == pkg && sel.Sel.Name == fn
}

func main() {
	repo := os.Getenv("VERIF_REPO")
	if repo == "" {
		repo = "/repo"
	}
	outDir := os.Getenv("VERIF_C11_OUT")
	if outDir == "" {
		wd, _ := os.Getwd()
		// run as `cd translator-c11 && go run ./cmd/errkinds2coq`
		outDir = filepath.Join(filepath.Dir(wd), "coq", "C11")
	}
	dir := filepath.Join(repo, "utils", "commonerrors")
	ef, err := parser.ParseFile(fset, filepath.Join(dir, "errors.go"), nil, 0)
	if err != nil {
		die(token.NoPos, "cannot parse errors.go: %v", err)
	}
	sf, err := parser.ParseFile(fset, filepath.Join(dir, "serialisation.go"), nil, 0)
	if err != nil {
		die(token.NoPos, "cannot parse serialisation.go: %v", err)
	}
	t := table{Source: "utils/commonerrors/errors.go, serialisation.go"}

	// ---- string / rune constants of both files
	strConst := map[string]string{}
	runeConst := map[string]int{}
	for _, f := range []*ast.File{ef, sf} {
		for _, d := range f.Decls {
			gd, ok := d.(*ast.GenDecl)
			if !ok || gd.Tok != token.CONST {
				continue
			}
			for _, s := range gd.Specs {
				vs := s.(*ast.ValueSpec)
				for i, n := range vs.Names {
					if i >= len(vs.Values) {
						continue
					}
					bl, ok := vs.Values[i].(*ast.BasicLit)
					if !ok {
						continue
					}
					switch bl.Kind {
					case token.STRING:
						v, err := strconv.Unquote(bl.Value)
						if err != nil {
							die(bl.Pos(), "string constant %s", n.Name)
						}
						strConst[n.Name] = v
					case token.CHAR:
						v, _, _, err := strconv.UnquoteChar(bl.Value[1:len(bl.Value)-1], '\'')
						if err != nil {
							die(bl.Pos(), "rune constant %s", n.Name)
						}
						runeConst[n.Name] = int(v)
					}
				}
			}
		}
	}
	var ok bool
	if t.TypeSep, ok = runeConst["TypeReasonErrorSeparator"]; !ok || t.TypeSep >= 128 {
		die(token.NoPos, "constant TypeReasonErrorSeparator (an ASCII rune literal) not found in serialisation.go")
	}
	if t.MultiSep, ok = runeConst["MultipleErrorSeparator"]; !ok || t.MultiSep >= 128 {
		die(token.NoPos, "constant MultipleErrorSeparator (an ASCII rune literal) not found in serialisation.go")
	}

	// ---- sentinels: top-level `var ErrX = errors.New(<string literal | string constant>)`
	index := map[string]int{}
	for _, d := range ef.Decls {
		gd, ok := d.(*ast.GenDecl)
		if !ok || gd.Tok != token.VAR {
			continue
		}
		for _, s := range gd.Specs {
			vs := s.(*ast.ValueSpec)
			for i, n := range vs.Names {
				isErrName := strings.HasPrefix(n.Name, "Err")
				if i >= len(vs.Values) {
					if isErrName {
						die(n.Pos(), "sentinel %s without initialiser", n.Name)
					}
					continue
				}
				c, isNew := isCall(vs.Values[i], "errors", "New")
				if !isNew {
					if isErrName {
						die(n.Pos(), "sentinel %s is not errors.New(...)", n.Name)
					}
					continue
				}
				if !isErrName {
					die(n.Pos(), "errors.New variable %s does not follow the Err* naming of sentinels", n.Name)
				}
				if len(c.Args) != 1 {
					die(c.Pos(), "errors.New with %d arguments", len(c.Args))
				}
				var text string
				switch a := c.Args[0].(type) {
				case *ast.BasicLit:
					if a.Kind != token.STRING {
						die(a.Pos(), "sentinel %s: non-string literal", n.Name)
					}
					text, err = strconv.Unquote(a.Value)
					if err != nil {
						die(a.Pos(), "sentinel %s: bad literal", n.Name)
					}
				case *ast.Ident:
					v, ok := strConst[a.Name]
					if !ok {
						die(a.Pos(), "sentinel %s: %s is not a string constant of the package", n.Name, a.Name)
					}
					text = v
				default:
					die(c.Args[0].Pos(), "sentinel %s: message is neither a literal nor a constant", n.Name)
				}
				if _, dup := index[n.Name]; dup {
					die(n.Pos(), "sentinel %s declared twice", n.Name)
				}
				index[n.Name] = len(t.Sentinels)
				t.Sentinels = append(t.Sentinels, sentinel{n.Name, text})
			}
		}
	}
	if len(t.Sentinels) == 0 {
		die(token.NoPos, "no sentinel found")
	}
	sent := func(e ast.Expr, what string) string {
		n, ok := ident(e)
		if !ok {
			die(e.Pos(), "%s: expected a sentinel identifier", what)
		}
		if _, ok := index[n]; !ok {
			die(e.Pos(), "%s: %s is not a declared sentinel", what, n)
		}
		return n
	}

	funcs := map[string]*ast.FuncDecl{}
	for _, d := range ef.Decls {
		if fd, ok := d.(*ast.FuncDecl); ok && fd.Recv == nil {
			funcs[fd.Name.Name] = fd
		}
	}

	// ---- IsCommonError: `return Any(target, S1, S2, ...)`
	{
		fd := funcs["IsCommonError"]
		if fd == nil || fd.Body == nil || len(fd.Body.List) != 1 || len(fd.Type.Params.List) != 1 || len(fd.Type.Params.List[0].Names) != 1 {
			die(token.NoPos, "IsCommonError: expected one parameter and a single return statement")
		}
		param := fd.Type.Params.List[0].Names[0].Name
		rs, ok := fd.Body.List[0].(*ast.ReturnStmt)
		if !ok || len(rs.Results) != 1 {
			die(fd.Pos(), "IsCommonError: single return expected")
		}
		c, ok := isCall(rs.Results[0], "", "Any")
		if !ok || len(c.Args) < 2 || c.Ellipsis.IsValid() {
			die(rs.Pos(), "IsCommonError: return Any(target, sentinels...) expected")
		}
		if n, ok := ident(c.Args[0]); !ok || n != param {
			die(c.Args[0].Pos(), "IsCommonError: first argument of Any must be the parameter")
		}
		for _, a := range c.Args[1:] {
			t.IsCommonArgs = append(t.IsCommonArgs, sent(a, "IsCommonError"))
		}
	}

	// ---- deserialiseCommonError
	{
		fd := funcs["deserialiseCommonError"]
		if fd == nil || fd.Body == nil || len(fd.Type.Params.List) != 1 || len(fd.Type.Params.List[0].Names) != 1 {
			die(token.NoPos, "deserialiseCommonError not found / unexpected signature")
		}
		p := fd.Type.Params.List[0].Names[0].Name
		if len(fd.Body.List) != 3 {
			die(fd.Pos(), "deserialiseCommonError: expected `x = strings.TrimSpace(x); switch {...}; return false, S`")
		}
		// 1. errStr = strings.TrimSpace(errStr)
		as, ok := fd.Body.List[0].(*ast.AssignStmt)
		if !ok || as.Tok != token.ASSIGN || len(as.Lhs) != 1 || len(as.Rhs) != 1 {
			die(fd.Body.List[0].Pos(), "deserialiseCommonError: first statement must be %s = strings.TrimSpace(%s)", p, p)
		}
		if n, ok := ident(as.Lhs[0]); !ok || n != p {
			die(as.Pos(), "deserialiseCommonError: first statement must assign %s", p)
		}
		if c, ok := isCall(as.Rhs[0], "strings", "TrimSpace"); !ok || len(c.Args) != 1 {
			die(as.Pos(), "deserialiseCommonError: strings.TrimSpace expected")
		} else if n, ok := ident(c.Args[0]); !ok || n != p {
			die(as.Pos(), "deserialiseCommonError: strings.TrimSpace(%s) expected", p)
		}
		// 2. the tag-less switch
		sw, ok := fd.Body.List[1].(*ast.SwitchStmt)
		if !ok || sw.Tag != nil || sw.Init != nil {
			die(fd.Body.List[1].Pos(), "deserialiseCommonError: tag-less switch expected")
		}
		isParam := func(e ast.Expr) bool { n, ok := ident(e); return ok && n == p }
		for _, st := range sw.Body.List {
			cc := st.(*ast.CaseClause)
			if cc.List == nil {
				die(cc.Pos(), "deserialiseCommonError: default clause")
			}
			if len(cc.List) != 1 {
				die(cc.Pos(), "deserialiseCommonError: case with %d expressions", len(cc.List))
			}
			if len(cc.Body) != 1 {
				die(cc.Pos(), "deserialiseCommonError: case body with %d statements", len(cc.Body))
			}
			rs, ok := cc.Body[0].(*ast.ReturnStmt)
			if !ok || len(rs.Results) != 2 {
				die(cc.Body[0].Pos(), "deserialiseCommonError: `return true, S` expected")
			}
			if n, ok := ident(rs.Results[0]); !ok || n != "true" {
				die(rs.Pos(), "deserialiseCommonError: a case must return true")
			}
			dc := dcase{Line: fset.Position(cc.Pos()).Line}
			retNil := false
			if n, ok := ident(rs.Results[1]); ok && n == "nil" {
				retNil = true
			} else {
				dc.Returns = sent(rs.Results[1], "deserialiseCommonError return")
			}
			switch e := cc.List[0].(type) {
			case *ast.BinaryExpr:
				if e.Op != token.EQL || !isParam(e.X) {
					die(e.Pos(), "deserialiseCommonError: comparison must be %s == ...", p)
				}
				switch r := e.Y.(type) {
				case *ast.BasicLit:
					if r.Kind != token.STRING || r.Value != `""` {
						die(r.Pos(), "deserialiseCommonError: only the empty literal may be compared")
					}
					if !retNil {
						die(rs.Pos(), "deserialiseCommonError: the empty case must return nil")
					}
					dc.Kind = "empty"
				case *ast.CallExpr:
					sel, ok := r.Fun.(*ast.SelectorExpr)
					if !ok || sel.Sel.Name != "Error" || len(r.Args) != 0 {
						die(r.Pos(), "deserialiseCommonError: %s == S.Error() expected", p)
					}
					dc.Kind = "exact"
					dc.Tested = sent(sel.X, "deserialiseCommonError exact case")
					if retNil {
						die(rs.Pos(), "deserialiseCommonError: exact case returning nil")
					}
				default:
					die(e.Y.Pos(), "deserialiseCommonError: unknown comparison")
				}
			case *ast.CallExpr:
				c, ok := isCall(e, "", "CorrespondTo")
				if !ok || len(c.Args) != 2 || !isParam(c.Args[1]) || c.Ellipsis.IsValid() {
					die(e.Pos(), "deserialiseCommonError: CorrespondTo(S, %s) expected", p)
				}
				dc.Kind = "corr"
				dc.Tested = sent(c.Args[0], "deserialiseCommonError CorrespondTo case")
				if retNil {
					die(rs.Pos(), "deserialiseCommonError: CorrespondTo case returning nil")
				}
			default:
				die(cc.List[0].Pos(), "deserialiseCommonError: unknown case expression")
			}
			t.DeserCases = append(t.DeserCases, dc)
		}
		// 3. return false, S
		rs, ok := fd.Body.List[2].(*ast.ReturnStmt)
		if !ok || len(rs.Results) != 2 {
			die(fd.Body.List[2].Pos(), "deserialiseCommonError: final `return false, S` expected")
		}
		if n, ok := ident(rs.Results[0]); !ok || n != "false" {
			die(rs.Pos(), "deserialiseCommonError: final return must be false")
		}
		t.DeserDefault = sent(rs.Results[1], "deserialiseCommonError default")
	}

	// ---- Errorf: the format literal of its fmt.Errorf
	{
		fd := funcs["Errorf"]
		if fd == nil || fd.Body == nil || len(fd.Body.List) == 0 {
			die(token.NoPos, "Errorf not found")
		}
		rs, ok := fd.Body.List[len(fd.Body.List)-1].(*ast.ReturnStmt)
		if !ok || len(rs.Results) != 1 {
			die(fd.Pos(), "Errorf: final return expected")
		}
		c, ok := isCall(rs.Results[0], "fmt", "Errorf")
		if !ok || len(c.Args) != 4 {
			die(rs.Pos(), "Errorf: return fmt.Errorf(format, tErr, string(TypeReasonErrorSeparator), msg) expected")
		}
		bl, ok := c.Args[0].(*ast.BasicLit)
		if !ok || bl.Kind != token.STRING {
			die(c.Args[0].Pos(), "Errorf: literal format expected")
		}
		t.ErrorfFormat, _ = strconv.Unquote(bl.Value)
		conv, ok := c.Args[2].(*ast.CallExpr)
		if !ok || len(conv.Args) != 1 {
			die(c.Args[2].Pos(), "Errorf: string(TypeReasonErrorSeparator) expected")
		}
		if n, ok := ident(conv.Fun); !ok || n != "string" {
			die(c.Args[2].Pos(), "Errorf: string(TypeReasonErrorSeparator) expected")
		}
		if n, ok := ident(conv.Args[0]); !ok || n != "TypeReasonErrorSeparator" {
			die(c.Args[2].Pos(), "Errorf: string(TypeReasonErrorSeparator) expected")
		}
	}

	// ---- emit
	var b strings.Builder
	b.WriteString("(* GENERATED by translator-c11/cmd/errkinds2coq from utils/commonerrors/errors.go and serialisation.go.\n   Do not edit: regenerated on every run of ./check C11. *)\n")
	b.WriteString("From Coq Require Import List ZArith String.\nImport ListNotations.\nLocal Open Scope Z_scope.\n\n")
	b.WriteString("(* sentinels, in declaration order; a kind is the index into this list *)\n")
	b.WriteString("Definition sentinel_names : list string := [\n")
	for i, s := range t.Sentinels {
		fmt.Fprintf(&b, "  %q%%string%s\n", s.Name, semi(i, len(t.Sentinels)))
	}
	b.WriteString("].\n\nDefinition sentinel_texts : list (list Z) := [\n")
	for i, s := range t.Sentinels {
		fmt.Fprintf(&b, "  %s%s (* %d %s = %q *)\n", zlist(s.Text), semi(i, len(t.Sentinels)), i, s.Name, s.Text)
	}
	b.WriteString("].\n\n")
	for i, s := range t.Sentinels {
		fmt.Fprintf(&b, "Definition %s : nat := %d%%nat.\n", s.Name, i)
	}
	b.WriteString("\n(* IsCommonError: the arguments of Any after the target *)\nDefinition is_common_args : list nat := [")
	for i, n := range t.IsCommonArgs {
		fmt.Fprintf(&b, "%s%s", n, semisp(i, len(t.IsCommonArgs)))
	}
	b.WriteString("].\n\n")
	b.WriteString("(* deserialiseCommonError: the cases of the switch IN SOURCE ORDER.\n   DEmpty: errStr == \"\" -> (true, nil); DExact t r: errStr == t.Error() -> (true, r); DCorr t r: CorrespondTo(t, errStr) -> (true, r) *)\n")
	b.WriteString("Inductive deser_case := DEmpty | DExact (tested returned : nat) | DCorr (tested returned : nat).\n")
	b.WriteString("Definition deser_cases : list deser_case := [\n")
	for i, c := range t.DeserCases {
		var s string
		switch c.Kind {
		case "empty":
			s = "DEmpty"
		case "exact":
			s = fmt.Sprintf("DExact %s %s", c.Tested, c.Returns)
		case "corr":
			s = fmt.Sprintf("DCorr %s %s", c.Tested, c.Returns)
		}
		fmt.Fprintf(&b, "  %s%s (* errors.go:%d *)\n", s, semi(i, len(t.DeserCases)), c.Line)
	}
	b.WriteString("].\n")
	fmt.Fprintf(&b, "Definition deser_default : nat := %s. (* return false, %s *)\n\n", t.DeserDefault, t.DeserDefault)
	fmt.Fprintf(&b, "Definition type_reason_separator : Z := %d.\nDefinition multiple_error_separator : Z := %d.\n", t.TypeSep, t.MultiSep)
	fmt.Fprintf(&b, "Definition errorf_format : list Z := %s. (* %q *)\n", zlist(t.ErrorfFormat), t.ErrorfFormat)

	if err := os.MkdirAll(outDir, 0o755); err != nil {
		die(token.NoPos, "%v", err)
	}
	js, _ := json.MarshalIndent(t, "", " ")
	js = append(js, '\n')
	c1 := writeIfChanged(filepath.Join(outDir, "Gen.v"), []byte(b.String()))
	c2 := writeIfChanged(filepath.Join(outDir, "errkinds.json"), js)
	fmt.Printf("errkinds2coq: %d sentinels, %d IsCommonError arguments, %d switch cases; Gen.v %s, errkinds.json %s\n",
		len(t.Sentinels), len(t.IsCommonArgs), len(t.DeserCases), chg(c1), chg(c2))
}

func chg(b bool) string {
	if b {
		return "rewritten"
	}
	return "unchanged"
}

func semi(i, n int) string {
	if i == n-1 {
		return ""
	}
	return ";"
}

func semisp(i, n int) string {
	if i == n-1 {
		return ""
	}
	return "; "
}

func zlist(s string) string {
	parts := make([]string, len(s))
	for i := 0; i < len(s); i++ {
		parts[i] = strconv.Itoa(int(s[i]))
	}
	return "[" + strings.Join(parts, ";") + "]"
}

func writeIfChanged(path string, content []byte) bool {
	old, err := os.ReadFile(path)
	if err == nil && string(old) == string(content) {
		return false
	}
	if err := os.WriteFile(path, content, 0o644); err != nil {
		die(token.NoPos, "%v", err)
	}
	return true
}
