module verif/translatorc11

go 1.24.1
