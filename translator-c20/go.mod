module verif/translator-c20

go 1.23
