// hash2coq regenerates coq/C20/Gen.v from utils/hashing/hash.go, utils/filesystem/filehash.go and utils/filesystem/tarfs.go of $VERIF_REPO:
// the bodies of hashingAlgo.CalculateWithContext and fileHashing.calculateFile as statement lists of a tiny IR
// (GU.C20.Model.stmt / fstmt), plus the facts that Calculate / CalculateFile[WithContext] delegate to them.
// Every statement must match one of the known shapes EXACTLY (after removing white space); anything else is an
// error: the translator fails closed and the check reports a broken tie.
package main

import (
	"bytes"
	"fmt"
	"go/ast"
	"go/parser"
	"go/printer"
	"go/token"
	"os"
	"path/filepath"
	"strings"
)

func die(f string, a ...any) {
	fmt.Fprintf(os.Stderr, "hash2coq: "+f+"\n", a...)
	os.Exit(1)
}

func norm(fset *token.FileSet, n ast.Node) string {
	var b bytes.Buffer
	_ = printer.Fprint(&b, fset, n)
	return strings.Join(strings.Fields(b.String()), "")
}

func findMethod(f *ast.File, recv, name string) *ast.FuncDecl {
	for _, d := range f.Decls {
		fd, ok := d.(*ast.FuncDecl)
		if !ok || fd.Name.Name != name || fd.Recv == nil || len(fd.Recv.List) != 1 {
			continue
		}
		t := fd.Recv.List[0].Type
		if s, ok := t.(*ast.StarExpr); ok {
			t = s.X
		}
		if id, ok := t.(*ast.Ident); ok && id.Name == recv {
			return fd
		}
	}
	return nil
}

func main() {
	repo := os.Getenv("VERIF_REPO")
	if repo == "" {
		repo = "/repo"
	}
	out := "coq/C20/Gen.v"
	if len(os.Args) > 1 {
		out = os.Args[1]
	}
	fset := token.NewFileSet()
	hf, err := parser.ParseFile(fset, filepath.Join(repo, "utils/hashing/hash.go"), nil, 0)
	if err != nil {
		die("%v", err)
	}
	ff, err := parser.ParseFile(fset, filepath.Join(repo, "utils/filesystem/filehash.go"), nil, 0)
	if err != nil {
		die("%v", err)
	}

	// ---- hashingAlgo.CalculateWithContext
	calc := findMethod(hf, "hashingAlgo", "CalculateWithContext")
	if calc == nil {
		die("method (*hashingAlgo).CalculateWithContext not found")
	}
	if got := norm(fset, calc.Type); got != "func(ctxcontext.Context,rio.Reader)(hashNstring,errerror)" {
		die("unexpected signature of CalculateWithContext: %s", got)
	}
	shapes := map[string]string{
		"ifr==nil{err=commonerrors.ErrUndefinedreturn}": "SNilCheck",
		"h.Hash.Reset()": "SReset",
		"_,err=safeio.CopyDataWithContext(ctx,r,h.Hash)": "SCopy",
		"iferr!=nil{return}":                             "SReturnIfErr",
		"hashN=hex.EncodeToString(h.Hash.Sum(nil))":      "SSumHex",
		"return": "SReturn",
	}
	var body []string
	for _, st := range calc.Body.List {
		s := norm(fset, st)
		c, ok := shapes[s]
		if !ok {
			die("CalculateWithContext: statement outside the translated fragment: %s", s)
		}
		body = append(body, c)
	}
	// Calculate delegates to CalculateWithContext with a background context
	if m := findMethod(hf, "hashingAlgo", "Calculate"); m == nil || norm(fset, m.Body) != "{returnh.CalculateWithContext(context.Background(),r)}" {
		die("Calculate is not `return h.CalculateWithContext(context.Background(), r)`")
	}
	// the struct holds nothing but the hash and its name (no cache, no buffer carried between calculations)
	structOK := false
	ast.Inspect(hf, func(n ast.Node) bool {
		if ts, ok := n.(*ast.TypeSpec); ok && ts.Name.Name == "hashingAlgo" {
			structOK = norm(fset, ts.Type) == "struct{Hashhash.HashTypestring}"
		}
		return true
	})
	if !structOK {
		die("type hashingAlgo is not struct{Hash hash.Hash; Type string}: state carried between calculations is outside the model")
	}

	// ---- the method set of hashingAlgo: a digest can be computed through CalculateWithContext only
	for _, d := range hf.Decls {
		fd, ok := d.(*ast.FuncDecl)
		if !ok || fd.Recv == nil || len(fd.Recv.List) != 1 {
			continue
		}
		t := fd.Recv.List[0].Type
		if st, ok := t.(*ast.StarExpr); ok {
			t = st.X
		}
		if id, ok := t.(*ast.Ident); ok && id.Name == "hashingAlgo" {
			switch fd.Name.Name {
			case "CalculateWithContext", "Calculate", "GetType":
			default:
				die("hashingAlgo has a method outside the translated fragment: %s", fd.Name.Name)
			}
		}
	}
	if m := findMethod(hf, "hashingAlgo", "GetType"); m == nil || norm(fset, m.Body) != "{returnh.Type}" {
		die("GetType is not `return h.Type`")
	}
	// ---- the string entry points
	findFunc := func(name string) *ast.FuncDecl {
		for _, d := range hf.Decls {
			if fd, ok := d.(*ast.FuncDecl); ok && fd.Recv == nil && fd.Name.Name == name {
				return fd
			}
		}
		return nil
	}
	sshapes := map[string]string{
		"ifhashingAlgo==nil{return\"\"}":                           "SSNilHasher",
		"hash,err:=hashingAlgo.Calculate(strings.NewReader(text))": "SSCalcStringReader",
		"iferr!=nil{return\"\"}":                                   "SSEmptyOnErr",
		"returnhash":                                               "SSReturnHash",
	}
	csh := findFunc("CalculateStringHash")
	if csh == nil || norm(fset, csh.Type) != "func(hashingAlgoIHash,textstring)string" {
		die("CalculateStringHash(hashingAlgo IHash, text string) string not found")
	}
	var sbody []string
	for _, st := range csh.Body.List {
		c, ok := sshapes[norm(fset, st)]
		if !ok {
			die("CalculateStringHash: statement outside the translated fragment: %s", norm(fset, st))
		}
		sbody = append(sbody, c)
	}
	if f := findFunc("CalculateHash"); f == nil || norm(fset, f.Body) != "{hashing,err:=NewHashingAlgorithm(htype)iferr!=nil{return\"\"}returnCalculateStringHash(hashing,text)}" {
		die("CalculateHash does not build a fresh hasher and call CalculateStringHash on it")
	}
	if f := findFunc("CalculateMD5Hash"); f == nil || norm(fset, f.Body) != "{returnCalculateHash(text,HashMd5)}" {
		die("CalculateMD5Hash is not `return CalculateHash(text, HashMd5)`")
	}

	// ---- fileHashing.calculateFile
	cf := findMethod(ff, "fileHashing", "calculateFile")
	if cf == nil {
		die("method (*fileHashing).calculateFile not found")
	}
	if got := norm(fset, cf.Type); got != "func(fsFS,pathstring,hashFuncfunc(h*fileHashing,fFile)(string,error))(string,error)" {
		die("unexpected signature of calculateFile: %s", got)
	}
	fshapes := []struct{ src, coq string }{
		{"ok,err:=fs.IsFile(path)", "FIsFile"},
		{"iferr!=nil||!ok{iferr!=nil{return\"\",err}err=commonerrors.Newf(commonerrors.ErrInvalid,\"notafile[%v]\",path)return\"\",err}", "FRejectNonFile"},
		{"f,err:=fs.GenericOpen(path)", "FOpen"},
		{"iferr!=nil{return\"\",err}", "FReturnIfErr"},
		{"deferfunc(){_=f.Close()}()", "FDeferCloseIgnoringItsError"},
		{"returnhashFunc(h,f)", "FHashOpenedHandle"},
	}
	var fbody []string
	for _, st := range cf.Body.List {
		s := norm(fset, st)
		found := ""
		for _, sh := range fshapes {
			if sh.src == s {
				found = sh.coq
			}
		}
		if found == "" {
			die("calculateFile: statement outside the translated fragment: %s", s)
		}
		fbody = append(fbody, found)
	}
	if m := findMethod(ff, "fileHashing", "CalculateFileWithContext"); m == nil ||
		norm(fset, m.Body) != "{returnh.calculateFile(fs,path,func(m*fileHashing,fFile)(string,error){returnm.CalculateWithContext(ctx,f)})}" {
		die("CalculateFileWithContext does not hash the opened handle with CalculateWithContext")
	}
	if m := findMethod(ff, "fileHashing", "CalculateFile"); m == nil ||
		norm(fset, m.Body) != "{returnh.calculateFile(fs,path,func(m*fileHashing,fFile)(string,error){returnm.Calculate(f)})}" {
		die("CalculateFile does not hash the opened handle with Calculate")
	}
	fstructOK := false
	ast.Inspect(ff, func(n ast.Node) bool {
		if ts, ok := n.(*ast.TypeSpec); ok && ts.Name.Name == "fileHashing" {
			fstructOK = norm(fset, ts.Type) == "struct{algohashing.IHash}"
		}
		return true
	})
	if !fstructOK {
		die("type fileHashing is not struct{algo hashing.IHash}: state carried between file hashes is outside the model")
	}

	// ---- constructors build a FRESH object per call and the two files keep no package-level state through which
	// calculations of different callers could meet (a shared, cached hasher is a stateful hash.Hash used by several callers)
	findFileFunc := func(f *ast.File, name string) *ast.FuncDecl {
		for _, d := range f.Decls {
			if fd, ok := d.(*ast.FuncDecl); ok && fd.Recv == nil && fd.Name.Name == name {
				return fd
			}
		}
		return nil
	}
	if f := findFileFunc(ff, "NewFileHash"); f == nil || norm(fset, f.Body) != "{algo,err:=hashing.NewHashingAlgorithm(hashType)iferr!=nil{returnnil,err}return&fileHashing{algo:algo,},nil}" {
		die("NewFileHash does not build a fresh fileHashing around a fresh hashing algorithm on every call")
	}
	if f := findFileFunc(hf, "newHashingAlgorithm"); f == nil || !strings.Contains(norm(fset, f.Body), "return&hashingAlgo{Hash:algorithm,Type:htype,},nil") {
		die("newHashingAlgorithm does not return a fresh hashingAlgo")
	}
	for _, file := range []*ast.File{hf, ff} {
		for _, d := range file.Decls {
			gd, ok := d.(*ast.GenDecl)
			if !ok || gd.Tok != token.VAR {
				continue
			}
			for _, sp := range gd.Specs {
				vs := sp.(*ast.ValueSpec)
				for _, n := range vs.Names {
					if n.Name == "_" {
						continue
					}
					die("package-level variable %s in %s: state shared between calculations is outside the model", n.Name, fset.Position(n.Pos()).Filename)
				}
			}
		}
	}

	// ---- tarfs.go: does the tar adapter hand out REWOUND handles?  (afero's tarfs shares one reader between all the
	// handles of a file; see coq/C20/Model.v, shfile)
	tf, err := parser.ParseFile(fset, filepath.Join(repo, "utils/filesystem/tarfs.go"), nil, 0)
	if err != nil {
		die("%v", err)
	}
	var adapter *ast.FuncDecl
	for _, d := range tf.Decls {
		if fd, ok := d.(*ast.FuncDecl); ok && fd.Recv == nil && fd.Name.Name == "newTarFSAdapterFromReader" {
			adapter = fd
		}
	}
	if adapter == nil || len(adapter.Body.List) == 0 {
		die("tarfs.go: newTarFSAdapterFromReader not found")
	}
	tarRewinds := "false"
	switch last := norm(fset, adapter.Body.List[len(adapter.Body.List)-1]); last {
	case "returnafero.NewReadOnlyFs(tarfs.New(reader)),nil":
		// afero's tarfs as it is: handles share the reader and are not rewound
	case "returnafero.NewReadOnlyFs(&rewindingTarFs{Fs:tarfs.New(reader)}),nil":
		tarRewinds = "true"
		want := map[string]string{
			"Open":     "{returnt.rewind(t.Fs.Open(name))}",
			"OpenFile": "{returnt.rewind(t.Fs.OpenFile(name,flag,perm))}",
			"rewind":   "{iferr!=nil||f==nil{returnf,err}ifinfo,subErr:=f.Stat();subErr==nil&&info!=nil&&!info.IsDir(){if_,subErr=f.Seek(0,io.SeekStart);subErr!=nil{_=f.Close()returnnil,subErr}}returnf,nil}",
		}
		for name, body := range want {
			m := findMethod(tf, "rewindingTarFs", name)
			if m == nil {
				die("tarfs.go: method (*rewindingTarFs).%s not found", name)
			}
			if got := norm(fset, m.Body); got != body {
				die("tarfs.go: (*rewindingTarFs).%s is outside the translated fragment: %s", name, got)
			}
		}
		structOK := false
		ast.Inspect(tf, func(n ast.Node) bool {
			if ts, ok := n.(*ast.TypeSpec); ok && ts.Name.Name == "rewindingTarFs" {
				structOK = norm(fset, ts.Type) == "struct{afero.Fs}"
			}
			return true
		})
		if !structOK {
			die("tarfs.go: type rewindingTarFs is not struct{afero.Fs}")
		}
	default:
		die("tarfs.go: newTarFSAdapterFromReader returns something outside the translated fragment: %s", last)
	}

	var b strings.Builder
	b.WriteString("(* GENERATED by translator-c20/cmd/hash2coq from utils/hashing/hash.go and utils/filesystem/filehash.go of the\n")
	b.WriteString("   repository's working tree — DO NOT EDIT; regenerated on every run of ./check C20. *)\n")
	b.WriteString("From Coq Require Import List.\nImport ListNotations.\nFrom GU Require Import C20.Model.\n\n")
	b.WriteString("(* hash.go  func (h *hashingAlgo) CalculateWithContext(ctx, r) (hashN string, err error) *)\n")
	b.WriteString("Definition calculate_body : list stmt := [" + strings.Join(body, "; ") + "].\n\n")
	b.WriteString("(* filehash.go  func (h *fileHashing) calculateFile(fs, path, hashFunc) (string, error);\n")
	b.WriteString("   CalculateFile / CalculateFileWithContext pass Calculate / CalculateWithContext of the same object as hashFunc;\n")
	b.WriteString("   neither struct carries anything between calls except the hash.Hash itself *)\n")
	b.WriteString("Definition calculate_file_body : list fstmt := [" + strings.Join(fbody, "; ") + "].\n")
	b.WriteString("\n(* hash.go  func CalculateStringHash(hashingAlgo IHash, text string) string;  CalculateHash / CalculateMD5Hash call it on a\n")
	b.WriteString("   fresh hasher;  hashingAlgo has no other method that computes a digest *)\n")
	b.WriteString("Definition string_hash_body : list sstmt := [" + strings.Join(sbody, "; ") + "].\n")
	b.WriteString("\n(* tarfs.go  newTarFSAdapterFromReader: the file system handed out wraps afero's tarfs so that Open / OpenFile rewind the\n")
	b.WriteString("   handle (Seek(0, io.SeekStart) on every non-directory) — true; or is afero's tarfs as it is — false *)\n")
	b.WriteString("Definition tar_open_rewinds : bool := " + tarRewinds + ".\n")
	if err := os.WriteFile(out, []byte(b.String()), 0o644); err != nil {
		die("%v", err)
	}
}
