// gocast2coq regenerates the Coq model of utils/safecast from the Go source.
//
// It parses and type-checks $VERIF_REPO/utils/safecast (default /repo), takes the ten conversion functions
// ToInt … ToUint64 and every function of the package they (transitively) call, and writes one Gallina definition
// per Go function to coq/C10/Gen.v, in a shallow embedding over the hand-written coq/C10/GoNum.v.
//
// Supported fragment (anything else is an ERROR, exit status 1 — never a guess):
//   - function declarations (no receivers) with type parameters constrained by unions of (~)numeric basic types,
//     numeric / bool parameters, exactly one numeric / bool result (named or not);
//   - statements: if / else (no init), return, `=` and `:=` on local variables (no shadowing), var declarations,
//     blocks, type switches `switch [f :=] any(x).(type)` whose cases name one predeclared numeric type each;
//   - expressions: constants (folded by go/types, exact), local variables, comparisons, && || !, unary -,
//   - - * / on same-typed operands, conversions T(e) between numeric types (not to float32 from a possibly wider
//     float), calls to (generic) functions of the same package.
//
// The file is written only if its content changed, so `make` stays incremental.
package main

import (
	"errors"
	"flag"
	"fmt"
	"go/ast"
	"go/build"
	"go/constant"
	"go/importer"
	"go/parser"
	"go/token"
	"go/types"
	"math"
	"math/big"
	"os"
	"path/filepath"
	"sort"
	"strings"
)

var roots = []string{"ToInt", "ToUint", "ToInt8", "ToUint8", "ToInt16", "ToUint16", "ToInt32", "ToUint32", "ToInt64", "ToUint64"}

var requiredFiles = []string{"cast.go", "boundary.go", "number.go"}

var basicKinds = map[types.BasicKind]string{
	types.Int: "int", types.Int8: "int8", types.Int16: "int16", types.Int32: "int32", types.Int64: "int64",
	types.Uint: "uint", types.Uint8: "uint8", types.Uint16: "uint16", types.Uint32: "uint32", types.Uint64: "uint64",
	types.Float32: "float32", types.Float64: "float64",
}

var reserved = map[string]bool{}

func init() {
	for _, w := range strings.Fields(`as at cofix else end exists exists2 fix for forall fun if IF in let match mod return
		Prop Set SProp Type then using where with by val res fl gty gkind Ok ImplDefined Panic Stuck VZ VF Fin Inf NaN
		true false negb andb orb cop aop kind named wrap rne fcmp ftrunc prec bits kmin kmax modulus satisfies
		Oeq One Olt Ole Ogt Oge Oadd Osub Omul Oquo mkTy Z N nat bool list option Some None`) {
		reserved[w] = true
	}
}

type translator struct {
	fset  *token.FileSet
	info  *types.Info
	pkg   *types.Package
	decls map[string]*ast.FuncDecl
	files map[*ast.FuncDecl]string

	// per function
	fn      *ast.FuncDecl
	callees map[string]bool
	argN    int
	named   string // name of the named result ("" if the result is unnamed)
	resBool bool

	constraints map[string][]string // constraint name -> coq terms
	consOrder   []string
}

type scope map[string]string // Go identifier -> Coq identifier

func (s scope) with(goName, coqName string) scope {
	n := make(scope, len(s)+1)
	for k, v := range s {
		n[k] = v
	}
	n[goName] = coqName
	return n
}

func (t *translator) errf(n ast.Node, format string, a ...any) error {
	pos := t.fset.Position(n.Pos())
	return fmt.Errorf("%s:%d:%d: unsupported (outside the translated fragment): %s", filepath.Base(pos.Filename), pos.Line, pos.Column, fmt.Sprintf(format, a...))
}

func mangle(name string) string {
	if reserved[name] || strings.HasPrefix(name, "go_") || strings.HasPrefix(name, "arg__") ||
		(len(name) > 1 && name[0] == 'T' && (strings.HasPrefix(name, "Tint") || strings.HasPrefix(name, "Tuint") || strings.HasPrefix(name, "Tfloat"))) ||
		(len(name) > 1 && name[0] == 'K' && (strings.HasPrefix(name, "Kint") || strings.HasPrefix(name, "Kuint") || strings.HasPrefix(name, "Kfloat"))) {
		return name + "_"
	}
	for _, r := range name {
		if !(r == '_' || r >= '0' && r <= '9' || r >= 'a' && r <= 'z' || r >= 'A' && r <= 'Z') {
			return "" // non-ASCII identifiers are rejected by the caller
		}
	}
	return name
}

// numeric kind name of a type ("" if it is not one of the 12 numeric basic kinds), looking through named types.
func kindOf(ty types.Type) string {
	if b, ok := types.Unalias(ty).Underlying().(*types.Basic); ok {
		return basicKinds[b.Kind()]
	}
	return ""
}

func isBool(ty types.Type) bool {
	b, ok := types.Unalias(ty).Underlying().(*types.Basic)
	return ok && b.Info()&types.IsBoolean != 0 // bool, or the untyped bool of a comparison
}

func isTypeParam(ty types.Type) bool {
	_, ok := types.Unalias(ty).(*types.TypeParam)
	return ok
}

// coqType renders a numeric Go type as a term of type gty.
func (t *translator) coqType(n ast.Node, ty types.Type) (string, error) {
	switch u := types.Unalias(ty).(type) {
	case *types.TypeParam:
		if m := mangle(u.Obj().Name()); m != "" {
			return m, nil
		}
		return "", t.errf(n, "type parameter name %q", u.Obj().Name())
	case *types.Basic:
		if k := basicKinds[u.Kind()]; k != "" {
			return "T" + k, nil
		}
	case *types.Named:
		if k := kindOf(u); k != "" && u.TypeArgs().Len() == 0 {
			return "(mkTy K" + k + " true)", nil
		}
	}
	return "", t.errf(n, "type %s is not a numeric type of the fragment", ty)
}

func (t *translator) isNumeric(ty types.Type) bool {
	if isTypeParam(ty) {
		return true
	}
	return kindOf(ty) != ""
}

// ---- constraints ----

func (t *translator) unionTerms(n ast.Node, ty types.Type, tilde bool, depth int) ([]string, error) {
	if depth > 20 {
		return nil, t.errf(n, "constraint nesting too deep")
	}
	switch u := types.Unalias(ty).(type) {
	case *types.Basic:
		if k := basicKinds[u.Kind()]; k != "" {
			return []string{fmt.Sprintf("(K%s, %v)", k, tilde)}, nil
		}
		return nil, t.errf(n, "constraint term %s", ty)
	case *types.Union:
		var out []string
		for i := 0; i < u.Len(); i++ {
			tm := u.Term(i)
			r, err := t.unionTerms(n, tm.Type(), tm.Tilde(), depth+1)
			if err != nil {
				return nil, err
			}
			out = append(out, r...)
		}
		return out, nil
	case *types.Named:
		if iface, ok := u.Underlying().(*types.Interface); ok {
			if tilde {
				return nil, t.errf(n, "~ on interface %s", ty)
			}
			return t.ifaceTerms(n, iface, depth+1)
		}
		if tilde {
			return nil, t.errf(n, "~ on named type %s", ty)
		}
		return nil, t.errf(n, "named non-interface type %s in a constraint", ty)
	case *types.Interface:
		return t.ifaceTerms(n, u, depth+1)
	}
	return nil, t.errf(n, "constraint term %s", ty)
}

func (t *translator) ifaceTerms(n ast.Node, iface *types.Interface, depth int) ([]string, error) {
	if iface.NumMethods() > 0 {
		return nil, t.errf(n, "constraint with methods")
	}
	if iface.NumEmbeddeds() != 1 {
		return nil, t.errf(n, "constraint interface must embed exactly one union/type (has %d)", iface.NumEmbeddeds())
	}
	return t.unionTerms(n, iface.EmbeddedType(0), false, depth+1)
}

func (t *translator) constraintName(n ast.Node, tp *types.TypeParam) (string, error) {
	c := types.Unalias(tp.Constraint())
	nm, ok := c.(*types.Named)
	if !ok {
		return "", t.errf(n, "type parameter %s: constraint must be a named interface, got %s", tp.Obj().Name(), c)
	}
	name := mangle(nm.Obj().Name())
	if name == "" {
		return "", t.errf(n, "constraint name %q", nm.Obj().Name())
	}
	if _, done := t.constraints[name]; !done {
		terms, err := t.unionTerms(n, nm, false, 0)
		if err != nil {
			return "", err
		}
		t.constraints[name] = terms
		t.consOrder = append(t.consOrder, name)
	}
	return name, nil
}

// ---- constants ----

func zlit(s string) string {
	if strings.HasPrefix(s, "-") {
		return "(" + s + ")"
	}
	return s
}

func (t *translator) constExpr(e ast.Expr, tv types.TypeAndValue) (string, error) {
	if isBool(tv.Type) {
		if tv.Value.Kind() != constant.Bool {
			return "", t.errf(e, "bool constant")
		}
		if constant.BoolVal(tv.Value) {
			return "(Ok true)", nil
		}
		return "(Ok false)", nil
	}
	if b, ok := tv.Type.(*types.Basic); ok && b.Info()&types.IsUntyped != 0 {
		return "", t.errf(e, "constant left untyped (%s)", tv.Type)
	}
	if !t.isNumeric(tv.Type) {
		return "", t.errf(e, "constant of type %s", tv.Type)
	}
	ty, err := t.coqType(e, tv.Type)
	if err != nil {
		return "", err
	}
	v := tv.Value
	if v.Kind() == constant.Int || (v.Kind() == constant.Float && constant.ToInt(v).Kind() == constant.Int) {
		iv := constant.ToInt(v)
		k := kindOf(tv.Type)
		if (k == "float32" || k == "float64") && !isTypeParam(tv.Type) {
			// typed float constant with an integer value: the compiler rounds it to the type
			return t.floatConst(e, ty, k, v)
		}
		return fmt.Sprintf("(go_const %s %s)", ty, zlit(iv.ExactString())), nil
	}
	if v.Kind() == constant.Float {
		k := kindOf(tv.Type)
		if isTypeParam(tv.Type) || (k != "float32" && k != "float64") {
			return "", t.errf(e, "non-integer constant of type %s", tv.Type)
		}
		return t.floatConst(e, ty, k, v)
	}
	return "", t.errf(e, "constant kind %v", v.Kind())
}

func (t *translator) floatConst(e ast.Expr, ty, k string, v constant.Value) (string, error) {
	var f float64
	if k == "float32" {
		f32, _ := constant.Float32Val(v)
		f = float64(f32)
	} else {
		f, _ = constant.Float64Val(v)
	}
	if math.IsInf(f, 0) || math.IsNaN(f) {
		return "", t.errf(e, "constant overflows %s", k)
	}
	if f == 0 {
		return fmt.Sprintf("(go_fconst %s 0 0)", ty), nil
	}
	frac, exp := math.Frexp(f) // f = frac * 2^exp, 0.5 <= |frac| < 1
	m := new(big.Int)
	big.NewFloat(math.Ldexp(frac, 53)).Int(m) // exact: frac has at most 53 significant bits
	ex := exp - 53
	for m.Bit(0) == 0 {
		m.Rsh(m, 1)
		ex++
	}
	emax := 971
	if k == "float32" {
		emax = 104
	}
	if ex > emax {
		m.Lsh(m, uint(ex-emax))
		ex = emax
	}
	return fmt.Sprintf("(go_fconst %s %s %s)", ty, zlit(m.String()), zlit(fmt.Sprint(ex))), nil
}

// ---- expressions ----  (every expression becomes a term of type [res val] or [res bool])

var cmpOps = map[token.Token]string{token.EQL: "Oeq", token.NEQ: "One", token.LSS: "Olt", token.LEQ: "Ole", token.GTR: "Ogt", token.GEQ: "Oge"}
var arithOps = map[token.Token]string{token.ADD: "Oadd", token.SUB: "Osub", token.MUL: "Omul", token.QUO: "Oquo"}

func (t *translator) expr(e ast.Expr, sc scope) (string, error) {
	tv, ok := t.info.Types[e]
	if !ok {
		return "", t.errf(e, "expression without type information")
	}
	if tv.IsType() {
		return "", t.errf(e, "type used as a value")
	}
	if tv.Value != nil {
		return t.constExpr(e, tv)
	}
	if !isBool(tv.Type) && !t.isNumeric(tv.Type) {
		return "", t.errf(e, "expression of type %s", tv.Type)
	}
	switch x := e.(type) {
	case *ast.ParenExpr:
		return t.expr(x.X, sc)
	case *ast.Ident:
		obj := t.info.Uses[x]
		if v, isVar := obj.(*types.Var); isVar && !v.IsField() && v.Parent() != t.pkg.Scope() {
			if c, ok := sc[x.Name]; ok {
				return "(Ok " + c + ")", nil
			}
		}
		return "", t.errf(e, "identifier %s is not a local variable or constant", x.Name)
	case *ast.UnaryExpr:
		a, err := t.expr(x.X, sc)
		if err != nil {
			return "", err
		}
		switch x.Op {
		case token.NOT:
			return "(go_not " + a + ")", nil
		case token.ADD:
			return a, nil
		case token.SUB:
			ty, err := t.coqType(e, tv.Type)
			if err != nil {
				return "", err
			}
			return "(go_neg " + ty + " " + a + ")", nil
		}
		return "", t.errf(e, "unary operator %s", x.Op)
	case *ast.BinaryExpr:
		if x.Op == token.LAND || x.Op == token.LOR {
			a, err := t.expr(x.X, sc)
			if err != nil {
				return "", err
			}
			b, err := t.expr(x.Y, sc)
			if err != nil {
				return "", err
			}
			// the right operand is a thunk: evaluated only when the left one does not decide (also inside Coq's VM)
			if x.Op == token.LAND {
				return "(go_and " + a + " (fun _ => " + b + "))", nil
			}
			return "(go_or " + a + " (fun _ => " + b + "))", nil
		}
		if op, ok := cmpOps[x.Op]; ok {
			xt, yt := t.info.TypeOf(x.X), t.info.TypeOf(x.Y)
			if !t.isNumeric(xt) || !types.Identical(xt, yt) {
				return "", t.errf(e, "comparison of %s with %s", xt, yt)
			}
			ty, err := t.coqType(e, xt)
			if err != nil {
				return "", err
			}
			a, err := t.expr(x.X, sc)
			if err != nil {
				return "", err
			}
			b, err := t.expr(x.Y, sc)
			if err != nil {
				return "", err
			}
			return fmt.Sprintf("(go_cmp %s %s %s %s)", op, ty, a, b), nil
		}
		if op, ok := arithOps[x.Op]; ok {
			xt, yt := t.info.TypeOf(x.X), t.info.TypeOf(x.Y)
			if !t.isNumeric(tv.Type) || !types.Identical(xt, yt) || !types.Identical(xt, tv.Type) {
				return "", t.errf(e, "arithmetic on %s and %s", xt, yt)
			}
			k := kindOf(tv.Type)
			if !isTypeParam(tv.Type) && (k == "float32" || k == "float64") && x.Op != token.QUO {
				return "", t.errf(e, "floating-point %s (only division by a power of two is modelled exactly)", x.Op)
			}
			ty, err := t.coqType(e, tv.Type)
			if err != nil {
				return "", err
			}
			a, err := t.expr(x.X, sc)
			if err != nil {
				return "", err
			}
			b, err := t.expr(x.Y, sc)
			if err != nil {
				return "", err
			}
			return fmt.Sprintf("(go_arith %s %s %s %s)", op, ty, a, b), nil
		}
		return "", t.errf(e, "binary operator %s", x.Op)
	case *ast.CallExpr:
		return t.call(x, tv, sc)
	}
	return "", t.errf(e, "expression form %T", e)
}

func (t *translator) call(x *ast.CallExpr, tv types.TypeAndValue, sc scope) (string, error) {
	if x.Ellipsis.IsValid() {
		return "", t.errf(x, "variadic call")
	}
	if ftv, ok := t.info.Types[x.Fun]; ok && ftv.IsType() {
		// conversion T(e)
		if len(x.Args) != 1 {
			return "", t.errf(x, "conversion with %d arguments", len(x.Args))
		}
		to := ftv.Type
		from := t.info.TypeOf(x.Args[0])
		if !t.isNumeric(to) || !t.isNumeric(from) {
			return "", t.errf(x, "conversion from %s to %s", from, to)
		}
		if kindOf(to) == "float32" && !isTypeParam(to) {
			fk := kindOf(from)
			if isTypeParam(from) || fk == "float64" {
				return "", t.errf(x, "conversion to float32 from %s (rounding float64 -> float32 is not modelled)", from)
			}
		}
		if isTypeParam(to) && (isTypeParam(from) || kindOf(from) == "float64") {
			return "", t.errf(x, "conversion to type parameter %s from %s (may round float64 -> float32, not modelled)", to, from)
		}
		fs, err := t.coqType(x, from)
		if err != nil {
			return "", err
		}
		ts, err := t.coqType(x, to)
		if err != nil {
			return "", err
		}
		a, err := t.expr(x.Args[0], sc)
		if err != nil {
			return "", err
		}
		return fmt.Sprintf("(go_conv %s %s %s)", fs, ts, a), nil
	}
	// call of a function of the same package
	var id *ast.Ident
	switch f := x.Fun.(type) {
	case *ast.Ident:
		id = f
	case *ast.IndexExpr:
		id, _ = f.X.(*ast.Ident)
	case *ast.IndexListExpr:
		id, _ = f.X.(*ast.Ident)
	case *ast.ParenExpr:
		id, _ = f.X.(*ast.Ident)
	}
	if id == nil {
		return "", t.errf(x, "call of %T", x.Fun)
	}
	fn, ok := t.info.Uses[id].(*types.Func)
	if !ok || fn.Pkg() != t.pkg {
		return "", t.errf(x, "call of %s (only functions of package %s are translated)", id.Name, t.pkg.Name())
	}
	sig := fn.Type().(*types.Signature)
	if sig.Recv() != nil || sig.Variadic() {
		return "", t.errf(x, "call of method / variadic function %s", id.Name)
	}
	if _, have := t.decls[fn.Name()]; !have {
		return "", t.errf(x, "call of %s: no declaration with a body found", id.Name)
	}
	var targs []string
	if sig.TypeParams().Len() > 0 {
		inst, ok := t.info.Instances[id]
		if !ok || inst.TypeArgs.Len() != sig.TypeParams().Len() {
			return "", t.errf(x, "cannot determine the type arguments of the call of %s", id.Name)
		}
		for i := 0; i < inst.TypeArgs.Len(); i++ {
			ta := inst.TypeArgs.At(i)
			if !t.isNumeric(ta) {
				return "", t.errf(x, "type argument %s", ta)
			}
			s, err := t.coqType(x, ta)
			if err != nil {
				return "", err
			}
			targs = append(targs, s)
		}
	}
	if len(x.Args) != sig.Params().Len() {
		return "", t.errf(x, "argument count of %s", id.Name)
	}
	var b strings.Builder
	var names []string
	b.WriteString("(")
	for _, a := range x.Args {
		s, err := t.expr(a, sc)
		if err != nil {
			return "", err
		}
		t.argN++
		n := fmt.Sprintf("arg__%d", t.argN)
		names = append(names, n)
		fmt.Fprintf(&b, "%s <- %s ;; ", n, s)
	}
	t.callees[fn.Name()] = true
	b.WriteString(strings.Join(append(append([]string{mangleFn(fn.Name())}, targs...), names...), " "))
	b.WriteString(")")
	return b.String(), nil
}

func mangleFn(name string) string {
	if m := mangle(name); m != "" {
		return m
	}
	return "fn_" + fmt.Sprintf("%x", name)
}

// ---- statements ----  (continuation style: [list] is the rest of the function after flattening blocks)

// paren wraps a (possibly multi-line, indented) term in parentheses, keeping its indentation.
func paren(s string) string {
	body := strings.TrimLeft(s, " ")
	return s[:len(s)-len(body)] + "(" + body + ")"
}

// thunk wraps a (possibly multi-line, indented) term as (fun _ => term), keeping its indentation.
func thunk(s string) string {
	body := strings.TrimLeft(s, " ")
	return s[:len(s)-len(body)] + "(fun _ => " + body + ")"
}

func ind(n int) string { return strings.Repeat("  ", n) }

func concat(a []ast.Stmt, b []ast.Stmt) []ast.Stmt {
	out := make([]ast.Stmt, 0, len(a)+len(b))
	out = append(out, a...)
	return append(out, b...)
}

func (t *translator) define(n ast.Node, sc scope, name string) (scope, string, error) {
	if name == "_" {
		return nil, "", t.errf(n, "blank identifier")
	}
	if _, dup := sc[name]; dup {
		return nil, "", t.errf(n, "redeclaration / shadowing of %s", name)
	}
	c := mangle(name)
	if c == "" {
		return nil, "", t.errf(n, "identifier %q", name)
	}
	for _, v := range sc {
		if v == c {
			return nil, "", t.errf(n, "identifier %q clashes after renaming", name)
		}
	}
	return sc.with(name, c), c, nil
}

func (t *translator) zero(n ast.Node, ty types.Type) (string, error) {
	if isBool(ty) {
		return "(Ok false)", nil
	}
	if !t.isNumeric(ty) {
		return "", t.errf(n, "variable of type %s", ty)
	}
	s, err := t.coqType(n, ty)
	if err != nil {
		return "", err
	}
	return "(go_const " + s + " 0)", nil
}

func (t *translator) stmts(list []ast.Stmt, sc scope, d int) (string, error) {
	if len(list) == 0 {
		return "", t.errf(t.fn, "control reaches the end of %s without a return statement", t.fn.Name.Name)
	}
	rest := list[1:]
	switch s := list[0].(type) {
	case *ast.EmptyStmt:
		return t.stmts(rest, sc, d)
	case *ast.BlockStmt:
		return t.stmts(concat(s.List, rest), sc, d)
	case *ast.ReturnStmt:
		switch len(s.Results) {
		case 0:
			if t.named == "" {
				return "", t.errf(s, "bare return without a named result")
			}
			return ind(d) + "(Ok " + sc[t.named] + ")", nil
		case 1:
			e, err := t.expr(s.Results[0], sc)
			if err != nil {
				return "", err
			}
			rt := t.info.TypeOf(s.Results[0])
			if isBool(rt) != t.resBool {
				return "", t.errf(s, "result type")
			}
			return ind(d) + e, nil
		}
		return "", t.errf(s, "return of %d values", len(s.Results))
	case *ast.IfStmt:
		if s.Init != nil {
			return "", t.errf(s, "if with an init statement")
		}
		c, err := t.expr(s.Cond, sc)
		if err != nil {
			return "", err
		}
		th, err := t.stmts(concat(s.Body.List, rest), sc, d+1)
		if err != nil {
			return "", err
		}
		var el string
		switch e := s.Else.(type) {
		case nil:
			el, err = t.stmts(rest, sc, d+1)
		case *ast.BlockStmt:
			el, err = t.stmts(concat(e.List, rest), sc, d+1)
		case *ast.IfStmt:
			el, err = t.stmts(concat([]ast.Stmt{e}, rest), sc, d+1)
		default:
			return "", t.errf(s, "else form %T", s.Else)
		}
		if err != nil {
			return "", err
		}
		// both branches are thunks: only the taken one is evaluated (also by Coq's call-by-value VM)
		return fmt.Sprintf("%s(go_if %s\n%s\n%s)", ind(d), c, thunk(th), thunk(el)), nil
	case *ast.AssignStmt:
		if len(s.Lhs) != 1 || len(s.Rhs) != 1 {
			return "", t.errf(s, "multiple assignment")
		}
		id, ok := s.Lhs[0].(*ast.Ident)
		if !ok {
			return "", t.errf(s, "assignment to %T", s.Lhs[0])
		}
		e, err := t.expr(s.Rhs[0], sc)
		if err != nil {
			return "", err
		}
		var c string
		nsc := sc
		switch s.Tok {
		case token.ASSIGN:
			v, isVar := t.info.Uses[id].(*types.Var)
			if !isVar || v.Parent() == t.pkg.Scope() {
				return "", t.errf(s, "assignment to non-local %s", id.Name)
			}
			if c, ok = sc[id.Name]; !ok {
				return "", t.errf(s, "assignment to unknown variable %s", id.Name)
			}
		case token.DEFINE:
			nsc, c, err = t.define(s, sc, id.Name)
			if err != nil {
				return "", err
			}
		default:
			return "", t.errf(s, "assignment operator %s", s.Tok)
		}
		r, err := t.stmts(rest, nsc, d)
		if err != nil {
			return "", err
		}
		return fmt.Sprintf("%s%s <- %s ;;\n%s", ind(d), c, e, r), nil
	case *ast.DeclStmt:
		gd, ok := s.Decl.(*ast.GenDecl)
		if !ok || gd.Tok != token.VAR || len(gd.Specs) != 1 {
			return "", t.errf(s, "declaration statement")
		}
		vs := gd.Specs[0].(*ast.ValueSpec)
		if len(vs.Names) != 1 || len(vs.Values) > 1 {
			return "", t.errf(s, "var declaration of several variables")
		}
		var e string
		var err error
		if len(vs.Values) == 1 {
			e, err = t.expr(vs.Values[0], sc)
		} else {
			e, err = t.zero(s, t.info.TypeOf(vs.Names[0]))
		}
		if err != nil {
			return "", err
		}
		nsc, c, err := t.define(s, sc, vs.Names[0].Name)
		if err != nil {
			return "", err
		}
		r, err := t.stmts(rest, nsc, d)
		if err != nil {
			return "", err
		}
		return fmt.Sprintf("%s%s <- %s ;;\n%s", ind(d), c, e, r), nil
	case *ast.TypeSwitchStmt:
		return t.typeSwitch(s, rest, sc, d)
	}
	return "", t.errf(list[0], "statement form %T", list[0])
}

func (t *translator) typeSwitch(s *ast.TypeSwitchStmt, rest []ast.Stmt, sc scope, d int) (string, error) {
	if s.Init != nil {
		return "", t.errf(s, "type switch with an init statement")
	}
	var sym *ast.Ident
	var ta *ast.TypeAssertExpr
	switch a := s.Assign.(type) {
	case *ast.ExprStmt:
		ta, _ = a.X.(*ast.TypeAssertExpr)
	case *ast.AssignStmt:
		if len(a.Lhs) == 1 && len(a.Rhs) == 1 && a.Tok == token.DEFINE {
			sym, _ = a.Lhs[0].(*ast.Ident)
			ta, _ = a.Rhs[0].(*ast.TypeAssertExpr)
		}
	}
	if ta == nil || ta.Type != nil {
		return "", t.errf(s, "type switch guard")
	}
	// the subject must be any(x) / interface{}(x) for a local numeric variable x
	conv, ok := ta.X.(*ast.CallExpr)
	if !ok || len(conv.Args) != 1 {
		return "", t.errf(s, "type switch subject must be any(x)")
	}
	ftv, ok := t.info.Types[conv.Fun]
	if !ok || !ftv.IsType() {
		return "", t.errf(s, "type switch subject must be any(x)")
	}
	if iface, ok := types.Unalias(ftv.Type).Underlying().(*types.Interface); !ok || !iface.Empty() {
		return "", t.errf(s, "type switch subject must be a conversion to the empty interface")
	}
	subj, ok := conv.Args[0].(*ast.Ident)
	if !ok {
		return "", t.errf(s, "type switch subject must be any(x) for a variable x")
	}
	st := t.info.TypeOf(subj)
	if !t.isNumeric(st) {
		return "", t.errf(s, "type switch on a value of type %s", st)
	}
	subjC, ok := sc[subj.Name]
	if v, isVar := t.info.Uses[subj].(*types.Var); !ok || !isVar || v.Parent() == t.pkg.Scope() {
		return "", t.errf(s, "type switch subject %s is not a local variable", subj.Name)
	}
	stC, err := t.coqType(s, st)
	if err != nil {
		return "", err
	}
	type arm struct{ cond, body string }
	var arms []arm
	var def *ast.CaseClause
	seenDefault := false
	for _, cs := range s.Body.List {
		cc := cs.(*ast.CaseClause)
		if cc.List == nil {
			if seenDefault {
				return "", t.errf(cc, "two default clauses")
			}
			seenDefault = true
			def = cc
			continue
		}
		if len(cc.List) != 1 {
			return "", t.errf(cc, "case with several types")
		}
		ctv, ok := t.info.Types[cc.List[0]]
		if !ok || !ctv.IsType() {
			return "", t.errf(cc, "case %v is not a type", cc.List[0])
		}
		cb, ok := types.Unalias(ctv.Type).(*types.Basic)
		if !ok || basicKinds[cb.Kind()] == "" {
			return "", t.errf(cc, "case type %s (only predeclared numeric types)", ctv.Type)
		}
		nsc := sc
		pre := ""
		if sym != nil {
			var c string
			nsc, c, err = t.define(cc, sc, sym.Name)
			if err != nil {
				return "", err
			}
			// in this clause the symbol has the case's type and the subject's value
			pre = fmt.Sprintf("%s%s <- (Ok %s) ;;\n", ind(d+1), c, subjC)
		}
		body, err := t.stmts(concat(cc.Body, rest), nsc, d+1)
		if err != nil {
			return "", err
		}
		arms = append(arms, arm{fmt.Sprintf("go_dyn_is %s K%s", stC, basicKinds[cb.Kind()]), pre + body})
	}
	var defBody string
	if def != nil {
		// the symbol (of interface type here) is deliberately not in scope: any use is rejected
		defBody, err = t.stmts(concat(def.Body, rest), sc, d+1)
	} else {
		defBody, err = t.stmts(rest, sc, d+1)
	}
	if err != nil {
		return "", err
	}
	var b strings.Builder
	for _, a := range arms {
		fmt.Fprintf(&b, "%s(if %s then\n%s\n%selse\n", ind(d), a.cond, paren(a.body), ind(d))
	}
	b.WriteString(paren(defBody))
	b.WriteString(strings.Repeat(")", len(arms)))
	return b.String(), nil
}

// ---- functions ----

type genFn struct {
	name    string
	text    string
	callees []string
	order   int
	cons    []string // constraint of each type parameter
}

func (t *translator) function(fd *ast.FuncDecl) (*genFn, error) {
	t.fn = fd
	t.callees = map[string]bool{}
	t.argN = 0
	t.named = ""
	if fd.Recv != nil {
		return nil, t.errf(fd, "method")
	}
	if fd.Body == nil {
		return nil, t.errf(fd, "function without body")
	}
	obj := t.info.Defs[fd.Name].(*types.Func)
	sig := obj.Type().(*types.Signature)
	if sig.Variadic() {
		return nil, t.errf(fd, "variadic function")
	}
	var params []string
	var cons []string
	sc := scope{}
	var err error
	for i := 0; i < sig.TypeParams().Len(); i++ {
		tp := sig.TypeParams().At(i)
		c, err := t.constraintName(fd, tp)
		if err != nil {
			return nil, err
		}
		cons = append(cons, c)
		m := mangle(tp.Obj().Name())
		if m == "" {
			return nil, t.errf(fd, "type parameter name %q", tp.Obj().Name())
		}
		// type parameters live in the same Coq namespace as variables ([define] checks clashes on the Coq names)
		for _, v := range sc {
			if v == m {
				return nil, t.errf(fd, "type parameter name %q clashes", tp.Obj().Name())
			}
		}
		sc = sc.with("type "+tp.Obj().Name(), m)
		params = append(params, fmt.Sprintf("(%s : gty)", m))
	}
	for i := 0; i < sig.Params().Len(); i++ {
		p := sig.Params().At(i)
		if p.Name() == "" {
			return nil, t.errf(fd, "unnamed parameter")
		}
		var c string
		sc, c, err = t.define(fd, sc, p.Name())
		if err != nil {
			return nil, err
		}
		switch {
		case isBool(p.Type()):
			params = append(params, fmt.Sprintf("(%s : bool)", c))
		case t.isNumeric(p.Type()):
			if _, err := t.coqType(fd, p.Type()); err != nil {
				return nil, err
			}
			params = append(params, fmt.Sprintf("(%s : val)", c))
		default:
			return nil, t.errf(fd, "parameter %s of type %s", p.Name(), p.Type())
		}
	}
	if sig.Results().Len() != 1 {
		return nil, t.errf(fd, "function with %d results", sig.Results().Len())
	}
	r := sig.Results().At(0)
	t.resBool = isBool(r.Type())
	resTy := "res val"
	if t.resBool {
		resTy = "res bool"
	} else if !t.isNumeric(r.Type()) {
		return nil, t.errf(fd, "result of type %s", r.Type())
	} else if _, err := t.coqType(fd, r.Type()); err != nil {
		return nil, err
	}
	pre := ""
	if r.Name() != "" {
		var c string
		sc, c, err = t.define(fd, sc, r.Name())
		if err != nil {
			return nil, err
		}
		t.named = r.Name()
		z, err := t.zero(fd, r.Type())
		if err != nil {
			return nil, err
		}
		pre = fmt.Sprintf("  %s <- %s ;;  (* named result, zero value *)\n", c, z)
	}
	// names used by the mangled type parameters must not clash with value names
	seen := map[string]string{}
	for g, c := range sc {
		if o, dup := seen[c]; dup {
			return nil, t.errf(fd, "identifiers %q and %q clash", o, g)
		}
		seen[c] = g
	}
	body, err := t.stmts(fd.Body.List, sc, 1)
	if err != nil {
		return nil, err
	}
	start, end := t.fset.Position(fd.Pos()), t.fset.Position(fd.End())
	var b strings.Builder
	fmt.Fprintf(&b, "(* %s:%d-%d   func %s", filepath.Base(start.Filename), start.Line, end.Line, fd.Name.Name)
	fmt.Fprintf(&b, "%s *)\n", types.TypeString(sig, func(*types.Package) string { return "" })[len("func"):])
	fmt.Fprintf(&b, "Definition %s %s : %s :=\n%s%s.\n", mangleFn(fd.Name.Name), strings.Join(params, " "), resTy, pre, body)
	var cs []string
	for c := range t.callees {
		cs = append(cs, c)
	}
	sort.Strings(cs)
	return &genFn{name: fd.Name.Name, text: b.String(), callees: cs, cons: cons}, nil
}

func run() error {
	out := flag.String("out", "", "output file (default: coq/C10/Gen.v of the verification tree)")
	flag.Parse()
	repo := os.Getenv("VERIF_REPO")
	if repo == "" {
		repo = "/repo"
	}
	dir := filepath.Join(repo, "utils", "safecast")
	if *out == "" {
		for _, c := range []string{"coq/C10", "../coq/C10", "../../coq/C10", "/verif/coq/C10"} {
			if st, err := os.Stat(c); err == nil && st.IsDir() {
				*out = filepath.Join(c, "Gen.v")
				break
			}
		}
		if *out == "" {
			return errors.New("cannot locate coq/C10; use -out")
		}
	}
	for _, f := range requiredFiles {
		if _, err := os.Stat(filepath.Join(dir, f)); err != nil {
			return fmt.Errorf("anchored file missing: %v", err)
		}
	}
	entries, err := os.ReadDir(dir)
	if err != nil {
		return err
	}
	fset := token.NewFileSet()
	var files []*ast.File
	ctx := build.Default
	ctx.GOOS, ctx.GOARCH = "linux", "amd64"
	for _, e := range entries {
		n := e.Name()
		if e.IsDir() || !strings.HasSuffix(n, ".go") || strings.HasSuffix(n, "_test.go") {
			continue
		}
		if ok, err := ctx.MatchFile(dir, n); err != nil || !ok {
			continue
		}
		f, err := parser.ParseFile(fset, filepath.Join(dir, n), nil, parser.ParseComments|parser.SkipObjectResolution)
		if err != nil {
			return fmt.Errorf("parse: %v", err)
		}
		files = append(files, f)
	}
	info := &types.Info{
		Types: map[ast.Expr]types.TypeAndValue{}, Defs: map[*ast.Ident]types.Object{}, Uses: map[*ast.Ident]types.Object{},
		Instances: map[*ast.Ident]types.Instance{}, Implicits: map[ast.Node]types.Object{},
	}
	conf := types.Config{Importer: importer.ForCompiler(fset, "source", nil), Sizes: types.SizesFor("gc", "amd64")}
	pkg, err := conf.Check("github.com/ARM-software/golang-utils/utils/safecast", fset, files, info)
	if err != nil {
		return fmt.Errorf("type check: %v", err)
	}
	t := &translator{fset: fset, info: info, pkg: pkg, decls: map[string]*ast.FuncDecl{}, files: map[*ast.FuncDecl]string{}, constraints: map[string][]string{}}
	order := map[string]int{}
	n := 0
	for _, f := range files {
		for _, d := range f.Decls {
			if fd, ok := d.(*ast.FuncDecl); ok && fd.Recv == nil && fd.Body != nil {
				t.decls[fd.Name.Name] = fd
				order[fd.Name.Name] = n
				n++
			}
		}
	}
	// translate the roots and everything they call
	gen := map[string]*genFn{}
	var work []string
	for _, r := range roots {
		if _, ok := t.decls[r]; !ok {
			return fmt.Errorf("function %s not found in %s", r, dir)
		}
		work = append(work, r)
	}
	for len(work) > 0 {
		name := work[0]
		work = work[1:]
		if _, done := gen[name]; done {
			continue
		}
		g, err := t.function(t.decls[name])
		if err != nil {
			return err
		}
		g.order = order[name]
		gen[name] = g
		work = append(work, g.callees...)
	}
	for _, r := range roots {
		if len(gen[r].cons) != 1 {
			return fmt.Errorf("%s: expected exactly one type parameter, found %d", r, len(gen[r].cons))
		}
		sig := info.Defs[t.decls[r].Name].(*types.Func).Type().(*types.Signature)
		if sig.Params().Len() != 1 || !isTypeParam(sig.Params().At(0).Type()) {
			return fmt.Errorf("%s: expected one parameter of the type parameter's type", r)
		}
		want := strings.ToLower(strings.TrimPrefix(r, "To"))
		if got := kindOf(sig.Results().At(0).Type()); got != want || isTypeParam(sig.Results().At(0).Type()) {
			return fmt.Errorf("%s: result type %s, expected %s", r, sig.Results().At(0).Type(), want)
		}
		if _, isBasic := types.Unalias(sig.Results().At(0).Type()).(*types.Basic); !isBasic {
			return fmt.Errorf("%s: result type %s, expected predeclared %s", r, sig.Results().At(0).Type(), want)
		}
	}
	// topological order (callees first; source order among independents); recursion is outside the fragment
	var sorted []*genFn
	state := map[string]int{}
	var visit func(string) error
	visit = func(nm string) error {
		switch state[nm] {
		case 1:
			return fmt.Errorf("unsupported (outside the translated fragment): recursion through %s", nm)
		case 2:
			return nil
		}
		state[nm] = 1
		for _, c := range gen[nm].callees {
			if err := visit(c); err != nil {
				return err
			}
		}
		state[nm] = 2
		sorted = append(sorted, gen[nm])
		return nil
	}
	var names []string
	for nm := range gen {
		names = append(names, nm)
	}
	sort.Slice(names, func(i, j int) bool { return gen[names[i]].order < gen[names[j]].order })
	for _, nm := range names {
		if err := visit(nm); err != nil {
			return err
		}
	}
	var b strings.Builder
	b.WriteString("(* GENERATED by translator/cmd/gocast2coq from utils/safecast/*.go of the repository's working tree — DO NOT EDIT.\n")
	b.WriteString("   One definition per Go function, shallow embedding over GU.C10.GoNum; regenerated on every run of ./check C10. *)\n")
	b.WriteString("From Coq Require Import ZArith Bool List.\nImport ListNotations.\nFrom GU Require Import C10.GoNum.\nLocal Open Scope Z_scope.\n\n")
	b.WriteString("(* type constraints (number.go): union terms as (kind, tilde) *)\n")
	for _, c := range t.consOrder {
		fmt.Fprintf(&b, "Definition %s : list (gkind * bool) :=\n  [%s].\n", c, strings.Join(t.constraints[c], "; "))
	}
	b.WriteString("\n")
	for _, g := range sorted {
		b.WriteString(g.text)
		b.WriteString("\n")
	}
	b.WriteString("(* constraint of the type parameter of each conversion function *)\n")
	for _, r := range roots {
		fmt.Fprintf(&b, "Definition %s_constraint : list (gkind * bool) := %s.\n", r, gen[r].cons[0])
	}
	content := b.String()
	if old, err := os.ReadFile(*out); err == nil && string(old) == content {
		fmt.Printf("gocast2coq: %s unchanged (%d functions)\n", *out, len(sorted))
		return nil
	}
	if err := os.WriteFile(*out, []byte(content), 0o644); err != nil {
		return err
	}
	fmt.Printf("gocast2coq: wrote %s (%d functions)\n", *out, len(sorted))
	return nil
}

func main() {
	if err := run(); err != nil {
		fmt.Fprintln(os.Stderr, "gocast2coq: ERROR:", err)
		os.Exit(1)
	}
}
