module verif/translator

go 1.24.1
