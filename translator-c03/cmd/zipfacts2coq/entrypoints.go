package main

// Entry points: every exported function or method of utils/filesystem from which the extraction code (unzip) or the
// archive opener (newZipReader) can be reached, found on a name-based call graph of the package (go/ast only: a call
// `f(..)` goes to the package-level function f, a call `x.M(..)` with x not an imported package goes to every method M of
// the package).  For every function on such a path the call expressions that lead on are recorded (so that the limits
// argument handed down is part of the facts), and every package-level wrapper of a *VFS method must have the exact shape
// `return globalFileSystem.<SameName>(<all parameters in order>)`.

import (
	"encoding/json"
	"go/ast"
	"go/parser"
	"os"
	"path/filepath"
	"sort"
	"strings"
)

type fnode struct {
	key      string // "Name" or "VFS.Name"
	name     string
	recv     string
	decl     *ast.FuncDecl
	imports  map[string]bool
	exported bool
}

type wrapperFact struct {
	Name     string
	Forwards bool
}

type entryFacts struct {
	Entries  []string    // "func Name(params)" / "method VFS.Name(params)"
	Edges    [][2]string // (function key, call expression leading towards unzip / newZipReader)
	Wrappers []wrapperFact
}

func paramNames(fd *ast.FuncDecl) (names []string, variadic bool) {
	for _, p := range fd.Type.Params.List {
		_, isVar := p.Type.(*ast.Ellipsis)
		for _, n := range p.Names {
			names = append(names, n.Name)
			variadic = isVar
		}
		if len(p.Names) == 0 {
			names = append(names, "_")
		}
	}
	return
}

func paramTypes(fd *ast.FuncDecl) string {
	var ts []string
	for _, p := range fd.Type.Params.List {
		t := src(p.Type)
		if e, ok := p.Type.(*ast.Ellipsis); ok {
			t = "..." + src(e.Elt)
		}
		n := len(p.Names)
		if n == 0 {
			n = 1
		}
		for i := 0; i < n; i++ {
			ts = append(ts, t)
		}
	}
	return strings.Join(ts, ",")
}

func extractEntryPoints(dir string) entryFacts {
	pkgs, err := parser.ParseDir(fset, dir, func(fi os.FileInfo) bool { return !strings.HasSuffix(fi.Name(), "_test.go") }, 0)
	if err != nil {
		die(0, "parsing %s: %v", dir, err)
	}
	pkg, ok := pkgs["filesystem"]
	if !ok {
		die(0, "package filesystem not found in %s", dir)
	}
	nodes := map[string]*fnode{}
	byName := map[string][]*fnode{} // methods by name
	funcs := map[string]*fnode{}
	var fileNames []string
	for fn := range pkg.Files {
		fileNames = append(fileNames, fn)
	}
	sort.Strings(fileNames)
	for _, fn := range fileNames {
		f := pkg.Files[fn]
		imports := map[string]bool{}
		for _, im := range f.Imports {
			p := strings.Trim(im.Path.Value, "\"")
			n := filepath.Base(p)
			if im.Name != nil {
				n = im.Name.Name
			}
			imports[n] = true
		}
		for _, d := range f.Decls {
			fd, ok := d.(*ast.FuncDecl)
			if !ok || fd.Body == nil {
				continue
			}
			n := &fnode{name: fd.Name.Name, decl: fd, imports: imports}
			if fd.Recv != nil && len(fd.Recv.List) == 1 {
				n.recv = strings.TrimPrefix(src(fd.Recv.List[0].Type), "*")
				n.key = n.recv + "." + n.name
				byName[n.name] = append(byName[n.name], n)
				n.exported = ast.IsExported(n.name) && ast.IsExported(n.recv)
			} else {
				n.key = n.name
				funcs[n.name] = n
				n.exported = ast.IsExported(n.name)
			}
			if _, dup := nodes[n.key]; dup {
				continue // platform variants of one function: the first file (sorted) stands for it
			}
			nodes[n.key] = n
		}
	}
	type edge struct {
		to   *fnode
		text string
	}
	out := map[string][]edge{}
	for _, n := range nodes {
		ast.Inspect(n.decl.Body, func(m ast.Node) bool {
			c, ok := m.(*ast.CallExpr)
			if !ok {
				return true
			}
			switch f := c.Fun.(type) {
			case *ast.Ident:
				if t, ok := funcs[f.Name]; ok {
					out[n.key] = append(out[n.key], edge{t, src(c)})
				}
			case *ast.SelectorExpr:
				if id, isId := f.X.(*ast.Ident); isId && n.imports[id.Name] {
					return true
				}
				for _, t := range byName[f.Sel.Name] {
					out[n.key] = append(out[n.key], edge{t, src(c)})
				}
			}
			return true
		})
	}
	// functions from which unzip / newZipReader are reachable
	reach := map[string]bool{}
	for _, t := range []string{"VFS.unzip", "newZipReader"} {
		if _, ok := nodes[t]; !ok {
			die(0, "%s not found in utils/filesystem", t)
		}
		reach[t] = true
	}
	for changed := true; changed; {
		changed = false
		for k, es := range out {
			if reach[k] {
				continue
			}
			for _, e := range es {
				if reach[e.to.key] {
					reach[k], changed = true, true
					break
				}
			}
		}
	}
	var ef entryFacts
	seenEdge := map[[2]string]bool{}
	for k := range reach {
		n := nodes[k]
		if n.exported {
			kind := "func "
			if n.recv != "" {
				kind = "method "
			}
			ef.Entries = append(ef.Entries, kind+k+"("+paramTypes(n.decl)+")")
		}
		for _, e := range out[k] {
			if reach[e.to.key] {
				ed := [2]string{k, e.text}
				if !seenEdge[ed] {
					seenEdge[ed] = true
					ef.Edges = append(ef.Edges, ed)
				}
			}
		}
		// a package-level function with a same-named method of VFS is a wrapper around the global file system
		if n.recv == "" && n.exported {
			if _, isWrapper := nodes["VFS."+n.name]; isWrapper {
				ef.Wrappers = append(ef.Wrappers, wrapperFact{n.name, forwardsEverything(n.decl)})
			}
		}
	}
	sort.Strings(ef.Entries)
	sort.Slice(ef.Edges, func(i, j int) bool {
		if ef.Edges[i][0] != ef.Edges[j][0] {
			return ef.Edges[i][0] < ef.Edges[j][0]
		}
		return ef.Edges[i][1] < ef.Edges[j][1]
	})
	sort.Slice(ef.Wrappers, func(i, j int) bool { return ef.Wrappers[i].Name < ef.Wrappers[j].Name })
	return ef
}

// forwardsEverything: the body is exactly `return globalFileSystem.<SameName>(<all parameters in order>)`
func forwardsEverything(fd *ast.FuncDecl) bool {
	if len(fd.Body.List) != 1 {
		return false
	}
	r, ok := fd.Body.List[0].(*ast.ReturnStmt)
	if !ok || len(r.Results) != 1 {
		return false
	}
	c, ok := r.Results[0].(*ast.CallExpr)
	if !ok || src(c.Fun) != "globalFileSystem."+fd.Name.Name {
		return false
	}
	names, variadic := paramNames(fd)
	if len(c.Args) != len(names) || variadic != c.Ellipsis.IsValid() {
		return false
	}
	for i, a := range c.Args {
		if id, ok := a.(*ast.Ident); !ok || id.Name != names[i] || names[i] == "_" {
			return false
		}
	}
	return true
}

func (ef entryFacts) coq() string {
	var b strings.Builder
	q := func(ss []string) string {
		ts := make([]string, len(ss))
		for i, s := range ss {
			ts[i] = "    " + coqStr(s)
		}
		return "[\n" + strings.Join(ts, ";\n") + "\n  ]"
	}
	b.WriteString("  ep_entry_points := " + q(ef.Entries) + ";\n")
	es := make([]string, len(ef.Edges))
	for i, e := range ef.Edges {
		es[i] = "    (" + coqStr(e[0]) + ", " + coqStr(e[1]) + ")"
	}
	b.WriteString("  ep_edges := [\n" + strings.Join(es, ";\n") + "\n  ];\n")
	ws := make([]string, len(ef.Wrappers))
	for i, w := range ef.Wrappers {
		ws[i] = "    (" + coqStr(w.Name) + ", " + coqBool(w.Forwards) + ")"
	}
	b.WriteString("  ep_wrappers := [\n" + strings.Join(ws, ";\n") + "\n  ];\n")
	return b.String()
}

func (ef entryFacts) writeJSON(path string) {
	bs, _ := json.MarshalIndent(map[string]any{"entry_points": ef.Entries, "wrappers": ef.Wrappers}, "", " ")
	if old, err := os.ReadFile(path); err == nil && string(old) == string(bs) {
		return
	}
	_ = os.WriteFile(path, bs, 0o644)
}
