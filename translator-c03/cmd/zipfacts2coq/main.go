// zipfacts2coq extracts, with go/ast only, the FACTS about the unzip code that the C03 model would otherwise hard-code,
// from utils/filesystem/zip.go (newZipReader, (*VFS).unzip, (*VFS).unzipNestedZipFiles, (*VFS).unzipZippedFile),
// utils/filesystem/limits.go (the getters of Limits) and utils/safeio/copy.go (CopyNWithContext):
//
//   - every limit check: left operand (which variable / counter), comparison operator, which getter of the limits;
//   - the switches on the depth limit (`GetMaxDepth() >= 0`, `> 0`);
//   - what is added to the counters and where (nested totals / counts, the size of a plain file in both modes, the
//     late count of a zip-named non-zip), whether directory entries `continue` before the checks, whether the checks
//     come after the additions;
//   - whether the copy is bounded by the declared size (safeio.CopyNWithContext(.., fileSizeOnDisk) with
//     fileSizeOnDisk = info.Size()) and followed by the end-of-stream probe;
//   - the depth passed to nested extractions (currentDepth+1), which field each getter returns, and that
//     CopyNWithContext is io.CopyN(dst, src, n) with n untouched;
//   - a canonical TRACE per function: the limit-relevant statements in source order (so that the order of checks,
//     additions, `continue`, calls is part of the generated record too).
//
// Everything is written to coq/C03/Gen.v as `Definition generated : facts`.  A statement that touches the limits, the
// counters or the copy and has a shape this program does not know is an ERROR (exit 1): the tie breaks instead of guessing.
package main

import (
	"fmt"
	"go/ast"
	"go/parser"
	"go/token"
	"os"
	"path/filepath"
	"strconv"
	"strings"
)

var fset = token.NewFileSet()
var outPath = "/verif/coq/C03/Gen.v"

func die(pos token.Pos, format string, a ...any) {
	where := ""
	if pos.IsValid() {
		p := fset.Position(pos)
		where = fmt.Sprintf("%s:%d: ", filepath.Base(p.Filename), p.Line)
	}
	fmt.Fprintf(os.Stderr, "zipfacts2coq: %sunsupported shape: %s\n", where, fmt.Sprintf(format, a...))
	// a stale Gen.v / Gen.vo must never stand in for a failed extraction
	for _, ext := range []string{".v", ".vo", ".vos", ".vok", ".glob"} {
		_ = os.Remove(strings.TrimSuffix(outPath, ".v") + ext)
	}
	_ = os.Remove(filepath.Join(filepath.Dir(outPath), "entrypoints.json"))
	os.Exit(1)
}

// ---- small AST helpers ----

func src(e ast.Node) string {
	switch x := e.(type) {
	case nil:
		return ""
	case *ast.Ident:
		return x.Name
	case *ast.BasicLit:
		return x.Value
	case *ast.SelectorExpr:
		return src(x.X) + "." + x.Sel.Name
	case *ast.CallExpr:
		as := make([]string, len(x.Args))
		for i, a := range x.Args {
			as[i] = src(a)
		}
		s := src(x.Fun) + "(" + strings.Join(as, ",")
		if x.Ellipsis.IsValid() {
			s += "..."
		}
		return s + ")"
	case *ast.BinaryExpr:
		return src(x.X) + x.Op.String() + src(x.Y)
	case *ast.UnaryExpr:
		return x.Op.String() + src(x.X)
	case *ast.ParenExpr:
		return "(" + src(x.X) + ")"
	case *ast.StarExpr:
		return "*" + src(x.X)
	case *ast.IndexExpr:
		return src(x.X) + "[" + src(x.Index) + "]"
	case *ast.CompositeLit:
		return src(x.Type) + "{...}"
	case *ast.FuncLit:
		return "func{...}"
	case *ast.MapType:
		return "map[" + src(x.Key) + "]" + src(x.Value)
	case *ast.ArrayType:
		return "[]" + src(x.Elt)
	}
	return fmt.Sprintf("<%T>", e)
}

func mentions(n ast.Node, names ...string) bool {
	found := false
	ast.Inspect(n, func(m ast.Node) bool {
		if id, ok := m.(*ast.Ident); ok {
			for _, nm := range names {
				if id.Name == nm {
					found = true
				}
			}
		}
		return !found
	})
	return found
}

// ---- facts ----

type check struct {
	lhs, op, getter string
	pos             token.Pos
}

func (c check) coq() string { return fmt.Sprintf("(mkCheck %s %s %s)", c.lhs, c.op, c.getter) }
func (c check) String() string {
	return fmt.Sprintf("%s %s %s", c.lhs, c.op, c.getter)
}

var cmpNames = map[token.Token]string{token.GTR: "CGt", token.GEQ: "CGe", token.LSS: "CLt", token.LEQ: "CLe", token.EQL: "CEq", token.NEQ: "CNe"}
var getters = map[string]string{"GetMaxFileSize": "GMaxFileSize", "GetMaxTotalSize": "GMaxTotalSize", "GetMaxFileCount": "GMaxFileCount", "GetMaxDepth": "GMaxDepth"}

// variables a limit may be compared with
func lhsVar(e ast.Expr, aliases map[string]string) (string, bool) {
	s := src(e)
	if a, ok := aliases[s]; ok {
		s = a
	}
	switch s {
	case "currentDepth":
		return "VCurrentDepth", true
	case "fileDepth":
		return "VFileDepth", true
	case "zipFileSize":
		return "VArchiveSize", true
	case "fileSizeOnDisk":
		return "VFileSize", true
	case "totalSizeOnDisk.Load()":
		return "VTotal", true
	case "fileCounter.Load()", "safecast.ToInt64(fileCounter.Load())":
		return "VCount", true
	}
	return "", false
}

func limitGetter(e ast.Expr) (string, bool) {
	c, ok := e.(*ast.CallExpr)
	if !ok || len(c.Args) != 0 {
		return "", false
	}
	s, ok := c.Fun.(*ast.SelectorExpr)
	if !ok || src(s.X) != "limits" {
		return "", false
	}
	g, ok := getters[s.Sel.Name]
	return g, ok
}

type cond struct {
	text     string // canonical text
	apply    bool
	rec      bool
	switches []check // getter OP literal (lhs = literal text)
	checks   []check
	relevant bool
}

func conjuncts(e ast.Expr) []ast.Expr {
	if b, ok := e.(*ast.BinaryExpr); ok && b.Op == token.LAND {
		return append(conjuncts(b.X), conjuncts(b.Y)...)
	}
	return []ast.Expr{e}
}

// parseCond canonicalises a condition; anything that touches the limits or the counters must have a known shape.
func parseCond(e ast.Expr, aliases map[string]string) cond {
	var c cond
	var parts []string
	for _, k := range conjuncts(e) {
		s := src(k)
		switch {
		case s == "limits.Apply()":
			c.apply, c.relevant = true, true
			parts = append(parts, "apply")
		case s == "limits.ApplyRecursively()":
			c.rec, c.relevant = true, true
			parts = append(parts, "recursive")
		case s == "fs.isZipWithContext(ctx,zippedFile.Name)":
			c.relevant = true
			parts = append(parts, "zipname")
		case s == "fs.isZipWithContext(ctx,filePath)":
			c.relevant = true
			parts = append(parts, "iszip(extracted)")
		case s == "zippedFile.FileInfo().IsDir()":
			c.relevant = true
			parts = append(parts, "isdir")
		case s == "!(limits.ApplyRecursively()&&fs.isZipWithContext(ctx,zippedFile.Name))":
			c.relevant = true
			parts = append(parts, "not(recursive&&zipname)")
		case s == "filecount<=math.MaxInt64" && aliases["filecount"] != "":
			parts = append(parts, "count-fits-int64")
		case s == "limits==nil":
			parts = append(parts, "other")
		case s == "extra>0":
			c.relevant = true
			parts = append(parts, "extra>0")
		case s == "!commonerrors.Any(err,io.EOF)":
			c.relevant = true
			parts = append(parts, "not-eof")
		default:
			b, isBin := k.(*ast.BinaryExpr)
			if isBin {
				if g, ok := limitGetter(b.X); ok { // limits.GetX() OP literal
					lit, isLit := b.Y.(*ast.BasicLit)
					op, okOp := cmpNames[b.Op]
					if !isLit || !okOp || lit.Kind != token.INT {
						die(k.Pos(), "comparison of a limit with something that is not an integer literal: %s", s)
					}
					c.switches = append(c.switches, check{lhs: lit.Value, op: op, getter: g, pos: k.Pos()})
					c.relevant = true
					parts = append(parts, fmt.Sprintf("%s %s %s", g, op, lit.Value))
					continue
				}
				if g, ok := limitGetter(b.Y); ok { // variable OP limits.GetX()
					v, okV := lhsVar(b.X, aliases)
					op, okOp := cmpNames[b.Op]
					if !okV || !okOp {
						die(k.Pos(), "limit check with an unknown left operand or operator: %s", s)
					}
					c.checks = append(c.checks, check{lhs: v, op: op, getter: g, pos: k.Pos()})
					c.relevant = true
					parts = append(parts, fmt.Sprintf("%s %s %s", v, op, g))
					continue
				}
			}
			if mentions(k, "limits", "totalSizeOnDisk", "fileCounter", "filecount", "extra") {
				die(k.Pos(), "condition touching the limits or the counters: %s", s)
			}
			parts = append(parts, "other")
		}
	}
	c.text = strings.Join(parts, " && ")
	return c
}

type event struct {
	text string
	pos  token.Pos
}

type walker struct {
	fn         string
	events     []event
	aliases    map[string]string // local name -> canonical expression (filecount -> fileCounter.Load())
	checks     map[string]check  // named checks found
	sw         map[string]check
	flags      map[string]int // event text -> index of first occurrence
	results    []string       // named results of the function
	applyDepth int            // number of enclosing `if limits.Apply() && ...` bodies
}

func (w *walker) emit(pos token.Pos, format string, a ...any) {
	t := fmt.Sprintf(format, a...)
	if _, ok := w.flags[t]; !ok {
		w.flags[t] = len(w.events)
	}
	w.events = append(w.events, event{t, pos})
}

func (w *walker) has(t string) bool { _, ok := w.flags[t]; return ok }
func (w *walker) idx(t string) int {
	if i, ok := w.flags[t]; ok {
		return i
	}
	return -1
}

func tooLarge(n ast.Node) bool {
	found := false
	ast.Inspect(n, func(m ast.Node) bool {
		if s, ok := m.(*ast.SelectorExpr); ok && src(s) == "commonerrors.ErrTooLarge" {
			found = true
		}
		return !found
	})
	return found
}

// a block that refuses: returns, after building an error; says with which kind
func refusal(b *ast.BlockStmt) (string, bool) {
	if b == nil || len(b.List) == 0 {
		return "", false
	}
	if _, ok := b.List[len(b.List)-1].(*ast.ReturnStmt); !ok {
		return "", false
	}
	if tooLarge(b) {
		return "refuse(TooLarge)", true
	}
	return "refuse(error)", true
}

func (w *walker) call(pos token.Pos, lhs []ast.Expr, c *ast.CallExpr) {
	f := src(c.Fun)
	args := make([]string, len(c.Args))
	for i, a := range c.Args {
		args[i] = src(a)
	}
	names := make([]string, len(lhs))
	for i, l := range lhs {
		names[i] = src(l)
	}
	switch f {
	case "atomic.NewUint64":
		if len(names) == 1 && (names[0] == "fileCounter" || names[0] == "totalSizeOnDisk") && len(args) == 1 && args[0] == "0" {
			w.emit(pos, "%s := 0", names[0])
			return
		}
		die(pos, "counter initialisation %s := %s", strings.Join(names, ","), src(c))
	case "fileCounter.Inc":
		w.emit(pos, "count++")
	case "fileCounter.Add":
		if len(args) != 1 {
			die(pos, "%s", src(c))
		}
		w.emit(pos, "count += %s", args[0])
	case "totalSizeOnDisk.Add":
		if len(args) != 1 {
			die(pos, "%s", src(c))
		}
		w.emit(pos, "total += %s", args[0])
	case "fileCounter.Load", "totalSizeOnDisk.Load":
		if len(names) == 1 {
			w.aliases[names[0]] = f + "()"
			return
		}
		die(pos, "use of a counter: %s", src(c))
	case "newZipReader":
		w.emit(pos, "newZipReader(%s)", strings.Join(args[1:], ","))
	case "fs.unzip":
		w.emit(pos, "%s := unzip(%s)", strings.Join(names, ","), strings.Join(args[1:], ","))
	case "fs.unzipZippedFile":
		w.emit(pos, "%s := unzipZippedFile(%s)", strings.Join(names, ","), strings.Join(args[1:], ","))
	case "fs.unzipNestedZipFiles":
		w.emit(pos, "%s := unzipNestedZipFiles(%s)", strings.Join(names, ","), strings.Join(args[1:], ","))
	case "fs.MkDir":
		w.emit(pos, "mkdir(%s)", strings.Join(args, ","))
	case "fs.Rm":
		if len(names) > 0 {
			w.emit(pos, "%s = rm(%s)", strings.Join(names, ","), strings.Join(args, ","))
		} else {
			w.emit(pos, "rm(%s)", strings.Join(args, ","))
		}
	case "fs.OpenFile":
		w.emit(pos, "openfile(%s)", args[1])
	case "zippedFile.Open":
		w.emit(pos, "open-zipped-stream")
	case "zip.NewReader":
		w.emit(pos, "zip.NewReader(%s)", strings.Join(args, ","))
	case "safeio.CopyNWithContext", "safeio.CopyDataWithContext", "io.CopyN", "io.Copy", "safeio.CopyWithContext":
		w.emit(pos, "%s := %s(%s)", strings.Join(names, ","), f, strings.Join(args, ","))
	case "info.Size", "zippedFile.FileInfo":
		if len(names) == 1 {
			w.emit(pos, "%s = %s()", names[0], f)
		}
	case "FileTreeDepth":
		w.emit(pos, "%s := FileTreeDepth(%s)", strings.Join(names, ","), strings.Join(args[1:], ","))
	case "append":
		if len(names) == 1 && names[0] == "fileList" {
			w.emit(pos, "list += %s", strings.Join(args[1:], ","))
		}
	default:
		if mentions(c, "limits", "totalSizeOnDisk", "fileCounter") && !strings.HasPrefix(f, "commonerrors.") {
			die(pos, "call touching the limits or the counters: %s", src(c))
		}
	}
}

func (w *walker) checkReturn(r *ast.ReturnStmt) {
	if w.fn != "unzip" || len(r.Results) == 0 {
		return
	}
	if len(r.Results) != 4 {
		die(r.Pos(), "return of unzip with %d results", len(r.Results))
	}
	second, third := src(r.Results[1]), src(r.Results[2])
	if a, ok := w.aliases[second]; ok {
		second = a
	}
	if src(r.Results[0]) != "fileList" || second != "fileCounter.Load()" || third != "totalSizeOnDisk.Load()" {
		die(r.Pos(), "unzip must return (fileList, fileCounter.Load(), totalSizeOnDisk.Load(), err); found %s", src(r.Results[0])+","+second+","+third)
	}
}

func (w *walker) stmts(list []ast.Stmt) {
	for i := 0; i < len(list); i++ {
		s := list[i]
		w.stmt(s)
		// the error of the removal of a nested archive: `X = fs.Rm(..)` followed by `if X != nil { err = wrap(X) }`
		a, ok := s.(*ast.AssignStmt)
		if !ok || len(a.Rhs) != 1 || len(a.Lhs) != 1 || i+1 >= len(list) {
			continue
		}
		c, ok := a.Rhs[0].(*ast.CallExpr)
		if !ok || src(c.Fun) != "fs.Rm" || src(a.Lhs[0]) == "_" {
			continue
		}
		x := src(a.Lhs[0])
		ifs, ok := list[i+1].(*ast.IfStmt)
		if !ok || src(ifs.Cond) != x+"!=nil" {
			continue
		}
		if ifs.Else != nil || ifs.Init != nil || len(ifs.Body.List) != 1 {
			die(ifs.Pos(), "handling of the error of fs.Rm")
		}
		b, ok := ifs.Body.List[0].(*ast.AssignStmt)
		if !ok || len(b.Lhs) != 1 || src(b.Lhs[0]) != "err" || len(b.Rhs) != 1 {
			die(ifs.Pos(), "handling of the error of fs.Rm: the body is not `err = ...`")
		}
		bc, ok := b.Rhs[0].(*ast.CallExpr)
		if src(b.Rhs[0]) != x && !(ok && strings.HasPrefix(src(bc.Fun), "commonerrors.") && len(bc.Args) > 0 && src(bc.Args[0]) == x) {
			die(ifs.Pos(), "handling of the error of fs.Rm: err is not built from %s", x)
		}
		w.emit(ifs.Pos(), "if %s != nil { err = wrap(%s) }", x, x)
		i++
	}
}

func (w *walker) stmt(s ast.Stmt) {
	switch x := s.(type) {
	case *ast.AssignStmt:
		if len(x.Rhs) == 1 {
			if c, ok := x.Rhs[0].(*ast.CallExpr); ok {
				w.call(x.Pos(), x.Lhs, c)
				return
			}
		}
		l := src(x.Lhs[0])
		switch {
		case len(x.Lhs) == 1 && l == "fileDepth":
			w.emit(x.Pos(), "fileDepth = %s", src(x.Rhs[0]))
		case len(x.Lhs) == 1 && (l == "fileSizeOnDisk" || l == "zipFileSize"):
			w.emit(x.Pos(), "%s = %s", l, src(x.Rhs[0]))
		default:
			for _, r := range x.Rhs {
				if mentions(r, "limits", "totalSizeOnDisk", "fileCounter") && !tooLarge(r) {
					die(x.Pos(), "assignment touching the limits or the counters: %s", src(r))
				}
			}
			for _, r := range x.Lhs {
				if mentions(r, "limits", "totalSizeOnDisk", "fileCounter", "currentDepth") {
					die(x.Pos(), "assignment to %s", src(r))
				}
			}
		}
	case *ast.ExprStmt:
		if c, ok := x.X.(*ast.CallExpr); ok {
			w.call(x.Pos(), nil, c)
		}
	case *ast.DeclStmt:
		// var fileDepth int64 : nothing to record
	case *ast.DeferStmt:
		// deferred closes: not limit relevant (checked: must not touch limits/counters)
		if mentions(x, "limits", "totalSizeOnDisk", "fileCounter") {
			die(x.Pos(), "defer touching the limits or the counters")
		}
	case *ast.ReturnStmt:
		w.checkReturn(x)
	case *ast.BranchStmt:
		if x.Tok == token.CONTINUE {
			w.emit(x.Pos(), "continue")
		} else {
			die(x.Pos(), "branch statement %s", x.Tok)
		}
	case *ast.RangeStmt:
		if src(x.X) != "zipReader.File" {
			die(x.Pos(), "loop over %s", src(x.X))
		}
		w.emit(x.Pos(), "for each entry {")
		w.stmts(x.Body.List)
		w.emit(x.Body.Rbrace, "}")
	case *ast.IfStmt:
		w.ifStmt(x)
	case *ast.BlockStmt:
		w.stmts(x.List)
	default:
		die(s.Pos(), "statement %T", s)
	}
}

func (w *walker) ifStmt(x *ast.IfStmt) {
	if x.Init != nil {
		a, ok := x.Init.(*ast.AssignStmt)
		if !ok || len(a.Lhs) != 1 || len(a.Rhs) != 1 {
			die(x.Pos(), "if with an initialiser of unknown shape")
		}
		if c, isCall := a.Rhs[0].(*ast.CallExpr); isCall && (src(c.Fun) == "fileCounter.Load" || src(c.Fun) == "totalSizeOnDisk.Load") {
			w.aliases[src(a.Lhs[0])] = src(c.Fun) + "()"
		} else if mentions(a, "limits", "totalSizeOnDisk", "fileCounter") {
			die(x.Pos(), "if initialiser touching the limits or the counters")
		}
	}
	// filecount -> safecast.ToInt64(filecount) is the counter as well
	al := map[string]string{}
	for k, v := range w.aliases {
		al[k] = v
		al["safecast.ToInt64("+k+")"] = v
	}
	c := parseCond(x.Cond, al)
	start := len(w.events)
	w.emit(x.Pos(), "if %s {", c.text)
	if r, ok := refusal(x.Body); ok && (len(c.checks) > 0 || c.text == "extra>0" || c.text == "not-eof") {
		w.emit(x.Body.Pos(), "%s", r)
		if r != "refuse(TooLarge)" && len(c.checks) > 0 {
			die(x.Pos(), "limit check %q that does not refuse with commonerrors.ErrTooLarge", c.text)
		}
	}
	inner := len(w.events)
	guarded := c.apply || w.applyDepth > 0
	if c.apply {
		w.applyDepth++
	}
	w.stmts(x.Body.List)
	if c.apply {
		w.applyDepth--
	}
	if x.Else != nil {
		w.emit(x.Else.Pos(), "} else {")
		w.stmt(x.Else)
	}
	if !c.relevant && len(w.events) == inner {
		// an error check / unrelated branch without anything relevant inside: drop it from the trace
		for t, i := range w.flags {
			if i >= start {
				delete(w.flags, t)
			}
		}
		w.events = w.events[:start]
		return
	}
	if len(c.checks) > 0 {
		if _, ok := refusal(x.Body); !ok && !(len(c.checks) == 0) {
			// a limit comparison guarding something else than a refusal
			nested := false
			for _, s := range x.Body.List {
				if _, isIf := s.(*ast.IfStmt); isIf {
					nested = true
				}
			}
			if !nested {
				die(x.Pos(), "limit comparison %q that does not guard a refusal", c.text)
			}
		}
	}
	for _, k := range c.checks {
		key := k.lhs + ":" + k.getter
		if _, dup := w.checks[key]; dup {
			die(k.pos, "second check of %s against %s in %s", k.lhs, k.getter, w.fn)
		}
		k2 := k
		w.checks[key] = k2
		if len(c.switches) > 0 {
			w.sw[key] = c.switches[0]
		}
		if !guarded {
			die(k.pos, "limit check %q not guarded by limits.Apply()", c.text)
		}
	}
	if len(c.checks) == 0 && len(c.switches) > 0 {
		w.sw["block"] = c.switches[0]
		if len(c.switches) > 1 {
			die(x.Pos(), "several switches in one condition")
		}
	}
	w.emit(x.End(), "}")
}

func newWalker(fn string) *walker {
	return &walker{fn: fn, aliases: map[string]string{}, checks: map[string]check{}, sw: map[string]check{}, flags: map[string]int{}}
}

func parse(path string) *ast.File {
	f, err := parser.ParseFile(fset, path, nil, 0)
	if err != nil {
		fmt.Fprintln(os.Stderr, "zipfacts2coq:", err)
		os.Exit(1)
	}
	return f
}

func findFunc(f *ast.File, recv, name string) *ast.FuncDecl {
	for _, d := range f.Decls {
		fd, ok := d.(*ast.FuncDecl)
		if !ok || fd.Name.Name != name {
			continue
		}
		r := ""
		if fd.Recv != nil && len(fd.Recv.List) == 1 {
			r = src(fd.Recv.List[0].Type)
		}
		if r == recv {
			return fd
		}
	}
	die(token.NoPos, "function %s %s not found", recv, name)
	return nil
}

func walk(f *ast.File, recv, name string) *walker {
	fd := findFunc(f, recv, name)
	w := newWalker(name)
	if fd.Type.Results != nil {
		for _, r := range fd.Type.Results.List {
			for _, n := range r.Names {
				w.results = append(w.results, n.Name)
			}
		}
	}
	w.stmts(fd.Body.List)
	return w
}

func (w *walker) need(key string) check {
	c, ok := w.checks[key]
	if !ok {
		die(token.NoPos, "%s: no check of %s found", w.fn, key)
	}
	return c
}

func coqBool(b bool) string {
	if b {
		return "true"
	}
	return "false"
}

func coqStr(s string) string { return "\"" + strings.ReplaceAll(s, "\"", "\"\"") + "\"" }

func coqTrace(w *walker) string {
	ts := make([]string, len(w.events))
	for i, e := range w.events {
		ts[i] = "    " + coqStr(e.text)
	}
	return "[\n" + strings.Join(ts, ";\n") + "\n  ]"
}

// between: event a occurs, and before event b
func (w *walker) before(a, b string) bool {
	i, j := w.idx(a), w.idx(b)
	return i >= 0 && j >= 0 && i < j
}

// ---- limits.go ----

func limitsFacts(f *ast.File) (fields map[string]string, apply bool, recField bool) {
	fields = map[string]string{}
	fieldNames := map[string]string{"MaxFileSize": "FMaxFileSize", "MaxTotalSize": "FMaxTotalSize", "MaxFileCount": "FMaxFileCount", "MaxDepth": "FMaxDepth"}
	single := func(name string) ast.Expr {
		fd := findFunc(f, "*Limits", name)
		if len(fd.Body.List) != 1 {
			die(fd.Pos(), "Limits.%s is not a single return", name)
		}
		r, ok := fd.Body.List[0].(*ast.ReturnStmt)
		if !ok || len(r.Results) != 1 {
			die(fd.Pos(), "Limits.%s is not a single return", name)
		}
		return r.Results[0]
	}
	for g := range getters {
		e := single(g)
		s, ok := e.(*ast.SelectorExpr)
		if !ok || src(s.X) != "l" {
			die(e.Pos(), "Limits.%s returns %s", g, src(e))
		}
		fn, ok := fieldNames[s.Sel.Name]
		if !ok {
			die(e.Pos(), "Limits.%s returns the field %s", g, s.Sel.Name)
		}
		fields[g] = fn
	}
	switch src(single("Apply")) {
	case "true":
		apply = true
	default:
		die(token.NoPos, "Limits.Apply does not return the constant true")
	}
	switch src(single("ApplyRecursively")) {
	case "l.Recursive":
		recField = true
	default:
		die(token.NoPos, "Limits.ApplyRecursively does not return l.Recursive")
	}
	return
}

// ---- copy.go ----

func copyFacts(f *ast.File) bool {
	fd := findFunc(f, "", "CopyNWithContext")
	if len(fd.Body.List) != 1 {
		die(fd.Pos(), "CopyNWithContext is not a single return")
	}
	r, ok := fd.Body.List[0].(*ast.ReturnStmt)
	if !ok || len(r.Results) != 1 {
		die(fd.Pos(), "CopyNWithContext is not a single return")
	}
	c, ok := r.Results[0].(*ast.CallExpr)
	if !ok || src(c.Fun) != "copyDataWithContext" || len(c.Args) != 4 || src(c.Args[0]) != "ctx" || src(c.Args[1]) != "src" || src(c.Args[2]) != "dst" {
		die(fd.Pos(), "CopyNWithContext does not return copyDataWithContext(ctx, src, dst, ...)")
	}
	lit, ok := c.Args[3].(*ast.FuncLit)
	if !ok || len(lit.Body.List) != 1 {
		die(fd.Pos(), "copy function of CopyNWithContext is not a one-statement function literal")
	}
	lr, ok := lit.Body.List[0].(*ast.ReturnStmt)
	if !ok || len(lr.Results) != 1 {
		die(lit.Pos(), "copy function of CopyNWithContext is not a single return")
	}
	// parameter names of the literal
	var ps []string
	for _, p := range lit.Type.Params.List {
		for _, n := range p.Names {
			ps = append(ps, n.Name)
		}
	}
	if len(ps) != 2 {
		die(lit.Pos(), "copy function with %d parameters", len(ps))
	}
	want := fmt.Sprintf("io.CopyN(%s,%s,n)", ps[0], ps[1])
	if src(lr.Results[0]) != want {
		die(lit.Pos(), "copy function of CopyNWithContext is %s, expected %s", src(lr.Results[0]), want)
	}
	// copyDataWithContext hands the function to safeCopy untouched, safeCopy calls it once on (w, r)
	cd := walkPlain(f, "copyDataWithContext")
	if !strings.Contains(cd, "safeCopy(ContextualWriter(ctx,dst),NewContextualReader(ctx,src),copyFunc)") {
		die(token.NoPos, "copyDataWithContext does not call safeCopy(ContextualWriter(ctx,dst),NewContextualReader(ctx,src),copyFunc)")
	}
	sc := walkPlain(f, "safeCopy")
	if !strings.Contains(sc, "iocopyFunc(w,r)") {
		die(token.NoPos, "safeCopy does not call iocopyFunc(w,r)")
	}
	return true
}

func walkPlain(f *ast.File, name string) string {
	fd := findFunc(f, "", name)
	var b strings.Builder
	ast.Inspect(fd.Body, func(n ast.Node) bool {
		if c, ok := n.(*ast.CallExpr); ok {
			b.WriteString(src(c) + ";")
		}
		return true
	})
	return b.String()
}

func main() {
	repo := os.Getenv("VERIF_REPO")
	if repo == "" {
		repo = "/repo"
	}
	if len(os.Args) > 1 {
		outPath = os.Args[1]
	}
	out := outPath
	zf := parse(filepath.Join(repo, "utils/filesystem/zip.go"))
	lf := parse(filepath.Join(repo, "utils/filesystem/limits.go"))
	cf := parse(filepath.Join(repo, "utils/safeio/copy.go"))

	ef := extractEntryPoints(filepath.Join(repo, "utils/filesystem"))
	fields, apply, recField := limitsFacts(lf)
	copyN := copyFacts(cf)

	// ---- newZipReader ----
	nz := walk(zf, "", "newZipReader")
	nzDepth := nz.need("VCurrentDepth:GMaxDepth")
	nzSw, ok := nz.sw["VCurrentDepth:GMaxDepth"]
	if !ok || nzSw.getter != "GMaxDepth" || nzSw.lhs != "0" {
		die(nzDepth.pos, "newZipReader: the depth check is not switched by GetMaxDepth() OP 0")
	}
	nzSize := nz.need("VArchiveSize:GMaxFileSize")
	if !nz.has("zipFileSize = info.Size()") {
		die(token.NoPos, "newZipReader: zipFileSize is not info.Size()")
	}
	if !nz.has("zip.NewReader(file,zipFileSize)") {
		die(token.NoPos, "newZipReader: zip.NewReader(file, zipFileSize) not found")
	}
	if len(nz.checks) != 2 {
		die(token.NoPos, "newZipReader: %d limit checks, expected 2", len(nz.checks))
	}
	nzChecksFirst := nz.idx("refuse(TooLarge)") >= 0 && nz.idx("zip.NewReader(file,zipFileSize)") > nz.idx("if apply && VArchiveSize "+nzSize.op+" "+nzSize.getter+" {")

	// ---- unzip ----
	uz := walk(zf, "*VFS", "unzip")
	if !uz.before("fileCounter := 0", "for each entry {") || !uz.before("totalSizeOnDisk := 0", "for each entry {") {
		die(token.NoPos, "unzip: the counters are not created afresh before the loop")
	}
	if !uz.before("newZipReader(source,limits,currentDepth)", "for each entry {") {
		die(token.NoPos, "unzip: newZipReader(fs, source, limits, currentDepth) not called before the loop")
	}
	lpDepth := uz.need("VFileDepth:GMaxDepth")
	lpSw, ok := uz.sw["block"]
	if !ok || lpSw.getter != "GMaxDepth" || lpSw.lhs != "0" {
		die(lpDepth.pos, "unzip: the depth block is not switched by GetMaxDepth() OP 0")
	}
	addsCurrent := false
	switch {
	case uz.has("fileDepth = depth+currentDepth"), uz.has("fileDepth = currentDepth+depth"):
		addsCurrent = true
	case uz.has("fileDepth = depth"):
	default:
		die(lpDepth.pos, "unzip: fileDepth is neither depth+currentDepth nor depth")
	}
	if !uz.has("depth,subErr := FileTreeDepth(destination,filePath)") {
		die(lpDepth.pos, "unzip: depth is not FileTreeDepth(fs, destination, filePath)")
	}
	lpTotal := uz.need("VTotal:GMaxTotalSize")
	lpCount := uz.need("VCount:GMaxFileCount")
	if len(uz.checks) != 3 {
		die(token.NoPos, "unzip: %d limit checks, expected 3", len(uz.checks))
	}
	totalCk := fmt.Sprintf("if apply && VTotal %s %s {", lpTotal.op, lpTotal.getter)
	countCk := fmt.Sprintf("if apply && count-fits-int64 && VCount %s %s {", lpCount.op, lpCount.getter)
	if uz.idx(totalCk) < 0 || uz.idx(countCk) < 0 {
		die(lpTotal.pos, "unzip: total / count checks of unknown shape")
	}
	firstCheck := min(uz.idx(totalCk), uz.idx(countCk))
	dirSkips := uz.before("if isdir {", "continue") && uz.idx("continue") < firstCheck
	if uz.has("continue") && !uz.before("if isdir {", "continue") {
		die(token.NoPos, "unzip: a continue outside the directory branch")
	}
	// additions
	nestedCall := "nestedUnzippedFiles,filesOnDiskCount,filesSizeOnDisk,subErr := unzipNestedZipFiles(filePath,limits,fileDepth)"
	if !uz.has(nestedCall) {
		die(token.NoPos, "unzip: call of unzipNestedZipFiles(ctx, filePath, limits, fileDepth) with results (list, count, size, err) not found")
	}
	if !uz.has("fileSizeOnDisk,subErr := unzipZippedFile(destination,filePath,zippedFile,limits,fileDepth)") {
		die(token.NoPos, "unzip: call of unzipZippedFile(ctx, destination, filePath, zippedFile, limits, fileDepth) not found")
	}
	last := 0
	nAddSize, nestedTotal, nestedCount, zipnameCounted := 0, false, false, false
	inRec, inZip, inElse := false, false, 0
	depthStack := []string{}
	sizeRec, sizeFlat := false, false
	for i, e := range uz.events {
		switch {
		case strings.HasPrefix(e.text, "if "):
			depthStack = append(depthStack, e.text)
		case e.text == "} else {":
			depthStack = append(depthStack, "else")
		case e.text == "}":
			for len(depthStack) > 0 && depthStack[len(depthStack)-1] == "else" {
				depthStack = depthStack[:len(depthStack)-1]
			}
			if len(depthStack) > 0 {
				depthStack = depthStack[:len(depthStack)-1]
			}
		}
		ctx := strings.Join(depthStack, " | ")
		_ = inRec
		_ = inZip
		_ = inElse
		switch e.text {
		case "total += filesSizeOnDisk":
			if ctx != "if recursive { | if iszip(extracted) {" {
				die(e.pos, "nested total added in context %q", ctx)
			}
			nestedTotal, last = true, i
		case "count += filesOnDiskCount":
			if ctx != "if recursive { | if iszip(extracted) {" {
				die(e.pos, "nested count added in context %q", ctx)
			}
			nestedCount, last = true, i
		case "total += safecast.ToUint64(fileSizeOnDisk)":
			nAddSize++
			switch ctx {
			case "if recursive { | if iszip(extracted) { | else":
				sizeRec = true
			case "if recursive { | else":
				sizeFlat = true
			default:
				die(e.pos, "file size added in context %q", ctx)
			}
			last = i
		case "count++":
			switch ctx {
			case "if not(recursive&&zipname) {":
			case "if recursive { | if iszip(extracted) { | else | if zipname {":
				zipnameCounted, last = true, i
			default:
				die(e.pos, "count++ in context %q", ctx)
			}
		default:
			if strings.HasPrefix(e.text, "total += ") || strings.HasPrefix(e.text, "count += ") {
				die(e.pos, "unknown addition to a counter: %s", e.text)
			}
		}
	}
	if !uz.has("if not(recursive&&zipname) {") || !uz.before("if not(recursive&&zipname) {", "if isdir {") {
		die(token.NoPos, "unzip: entries are not recorded (unless recursive && zip name) before the directory branch")
	}
	if !uz.before(nestedCall, "total += filesSizeOnDisk") && nestedTotal {
		die(token.NoPos, "unzip: nested total added before the nested call")
	}
	checksAfter := last < firstCheck

	// ---- unzipNestedZipFiles ----
	ns := walk(zf, "*VFS", "unzipNestedZipFiles")
	var nsInc int64 = -1
	for _, e := range ns.events {
		if strings.HasPrefix(e.text, "nestedUnzippedFiles,fileOnDiskCount,filesSizeOnDisk,subErr := unzip(nestedZipFile,destination,limits,") {
			arg := strings.TrimSuffix(strings.TrimPrefix(e.text, "nestedUnzippedFiles,fileOnDiskCount,filesSizeOnDisk,subErr := unzip(nestedZipFile,destination,limits,"), ")")
			switch {
			case arg == "currentDepth":
				nsInc = 0
			case strings.HasPrefix(arg, "currentDepth+"):
				v, err := strconv.ParseInt(strings.TrimPrefix(arg, "currentDepth+"), 10, 64)
				if err != nil {
					die(e.pos, "depth of the nested extraction: %s", arg)
				}
				nsInc = v
			default:
				die(e.pos, "depth of the nested extraction: %s", arg)
			}
		}
	}
	if nsInc < 0 {
		die(token.NoPos, "unzipNestedZipFiles: call of unzip(ctx, nestedZipFile, destination, limits, currentDepth+k) with results bound to the named results not found")
	}
	if strings.Join(ns.results, ",") != "nestedUnzippedFiles,fileOnDiskCount,filesSizeOnDisk,err" {
		die(token.NoPos, "unzipNestedZipFiles: named results are %v", ns.results)
	}
	if strings.Join(uz.results, ",") != "fileList,fileOnDiskCount,sizeOnDisk,err" {
		die(token.NoPos, "unzip: named results are %v", uz.results)
	}
	rmReturned := false
	switch {
	case ns.has("subErr = rm(nestedZipFile)") && ns.has("if subErr != nil { err = wrap(subErr) }"):
		rmReturned = true
		// nothing may reset err afterwards: the removal and its error handling are the last statements before the return
		if n := len(ns.events); ns.events[n-1].text != "if subErr != nil { err = wrap(subErr) }" || ns.events[n-2].text != "subErr = rm(nestedZipFile)" {
			die(token.NoPos, "unzipNestedZipFiles: statements after the handling of the error of fs.Rm")
		}
	case ns.has("_ = rm(nestedZipFile)"), ns.has("rm(nestedZipFile)"):
	default:
		die(token.NoPos, "unzipNestedZipFiles: the nested archive is not removed by fs.Rm(nestedZipFile), or its error is handled in an unknown way")
	}
	if !ns.before("nestedUnzippedFiles,fileOnDiskCount,filesSizeOnDisk,subErr := unzip(nestedZipFile,destination,limits,currentDepth+"+fmt.Sprint(nsInc)+")", "subErr = rm(nestedZipFile)") && rmReturned {
		die(token.NoPos, "unzipNestedZipFiles: removal before the extraction")
	}

	// ---- unzipZippedFile ----
	zp := walk(zf, "*VFS", "unzipZippedFile")
	zfDepth := zp.need("VCurrentDepth:GMaxDepth")
	zfSw, ok := zp.sw["VCurrentDepth:GMaxDepth"]
	if !ok || zfSw.getter != "GMaxDepth" || zfSw.lhs != "0" {
		die(zfDepth.pos, "unzipZippedFile: the depth check is not switched by GetMaxDepth() OP 0")
	}
	zfSize := zp.need("VFileSize:GMaxFileSize")
	if len(zp.checks) != 2 {
		die(token.NoPos, "unzipZippedFile: %d limit checks, expected 2", len(zp.checks))
	}
	if !zp.has("info = zippedFile.FileInfo()") || !zp.has("fileSizeOnDisk = info.Size()") {
		die(token.NoPos, "unzipZippedFile: fileSizeOnDisk is not zippedFile.FileInfo().Size()")
	}
	bounded := false
	copyEv := ""
	switch {
	case zp.has("_,err := safeio.CopyNWithContext(ctx,sourceFile,destinationFile,fileSizeOnDisk)"):
		bounded, copyEv = true, "_,err := safeio.CopyNWithContext(ctx,sourceFile,destinationFile,fileSizeOnDisk)"
	case zp.has("_,err := safeio.CopyDataWithContext(ctx,sourceFile,destinationFile)"):
		copyEv = "_,err := safeio.CopyDataWithContext(ctx,sourceFile,destinationFile)"
	default:
		die(token.NoPos, "unzipZippedFile: the copy is neither CopyNWithContext(ctx, sourceFile, destinationFile, fileSizeOnDisk) nor CopyDataWithContext(ctx, sourceFile, destinationFile)")
	}
	sizeCk := fmt.Sprintf("if VFileSize %s %s {", zfSize.op, zfSize.getter)
	if zp.idx(sizeCk) < 0 || !zp.before("if apply {", sizeCk) {
		die(zfSize.pos, "unzipZippedFile: size check of unknown shape")
	}
	sizeBefore := zp.idx(sizeCk) < zp.idx(copyEv) && zp.idx("fileSizeOnDisk = info.Size()") < zp.idx(sizeCk)
	probe := false
	p1, p2, p3 := zp.idx("extra,err := io.CopyN(io.Discard,sourceFile,1)"), zp.idx("if extra>0 {"), zp.idx("if not-eof {")
	switch {
	case p1 < 0 && p2 < 0 && p3 < 0:
	case p1 > zp.idx(copyEv) && p2 > p1 && p3 > p2:
		probe = true
		if zp.events[p2+1].text != "refuse(error)" || zp.events[p3+1].text != "refuse(error)" {
			die(token.NoPos, "unzipZippedFile: the end-of-stream probe does not return an error in both branches")
		}
	default:
		die(token.NoPos, "unzipZippedFile: end-of-stream probe of unknown shape")
	}

	var b strings.Builder
	b.WriteString("(* GENERATED by translator-c03/cmd/zipfacts2coq from utils/filesystem/zip.go, limits.go and utils/safeio/copy.go — do not edit. *)\n")
	b.WriteString("From Coq Require Import List ZArith Bool String.\nImport ListNotations.\nFrom GU Require Import C03.Model.\nLocal Open Scope string_scope.\nLocal Open Scope Z_scope.\n\n")
	b.WriteString("Definition generated : facts := {|\n")
	w := func(name, val string) { fmt.Fprintf(&b, "  %s := %s;\n", name, val) }
	w("g_file", fields["GetMaxFileSize"])
	w("g_total", fields["GetMaxTotalSize"])
	w("g_count", fields["GetMaxFileCount"])
	w("g_depth", fields["GetMaxDepth"])
	w("g_apply", coqBool(apply))
	w("g_recursive", coqBool(recField))
	w("cp_copyn", coqBool(copyN))
	w("nz_depth_switch", nzSw.op)
	w("nz_depth", nzDepth.coq())
	w("nz_size", nzSize.coq())
	w("nz_checks_before_reader", coqBool(nzChecksFirst))
	w("lp_depth_switch", lpSw.op)
	w("lp_depth_adds_current", coqBool(addsCurrent))
	w("lp_depth", lpDepth.coq())
	w("lp_dir_skips_checks", coqBool(dirSkips))
	w("lp_nested_total_added", coqBool(nestedTotal))
	w("lp_nested_count_added", coqBool(nestedCount))
	w("lp_size_added_rec", coqBool(sizeRec))
	w("lp_size_added_flat", coqBool(sizeFlat))
	w("lp_zipname_counted", coqBool(zipnameCounted))
	w("lp_total", lpTotal.coq())
	w("lp_count", lpCount.coq())
	w("lp_checks_after_additions", coqBool(checksAfter))
	w("zf_depth_switch", zfSw.op)
	w("zf_depth", zfDepth.coq())
	w("zf_size", zfSize.coq())
	w("zf_size_before_copy", coqBool(sizeBefore))
	w("zf_bounded_copy", coqBool(bounded))
	w("zf_eos_probe", coqBool(probe))
	w("ns_depth_inc", fmt.Sprint(nsInc))
	w("ns_rm_error_returned", coqBool(rmReturned))
	b.WriteString(ef.coq())
	w("tr_newzipreader", coqTrace(nz))
	w("tr_unzip", coqTrace(uz))
	w("tr_nested", coqTrace(ns))
	fmt.Fprintf(&b, "  tr_zippedfile := %s\n|}.\n", coqTrace(zp))
	content := b.String()
	ef.writeJSON(filepath.Join(filepath.Dir(out), "entrypoints.json"))
	if old, err := os.ReadFile(out); err == nil && string(old) == content {
		return
	}
	if err := os.WriteFile(out, []byte(content), 0o644); err != nil {
		fmt.Fprintln(os.Stderr, "zipfacts2coq:", err)
		os.Exit(1)
	}
}
