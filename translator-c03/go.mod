module verif/translatorc03

go 1.24.1
