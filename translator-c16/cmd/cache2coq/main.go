// cache2coq extracts from utils/sharedcache/{common.go,sharedcache_mutable.go,sharedcache_immutable.go} the FACTS behind
// the flags and the fixed micro-step order of the Coq model of property C16 (go/ast only, no type checking) and writes
// them as a record to coq/C16/Gen.v (+ facts.json), only when the content changes.
//
//	mutable Fetch / Store   the deferred Unlock of the entry lock is registered only after LockWithTimeout returned nil
//	                        (statement order); the deferred function does not assign the result `err`, and the error of
//	                        the transfer / unpack call is returned by the statement that follows it
//	TransferFiles           hash1 := getHash(src, false); hash2 := getHash(destFile, true) (the destination hash is computed
//	                        from the transferred file); on a mismatch hash1 is recalculated by getHash(<X>, true) exactly
//	                        once before the transfer is declared corrupt, and <X> is the SOURCE; the copy between the two hash
//	                        computations is unconditional (never skipped because a side file says the destination is equal)
//	getCacheEntryPath       filepath.Join(remote storage path, key): the entry is a function of the whole key
//	setUpLocalDestination   CleanDir(dest), then Ls(dest) and failure when something is left
//	unpackPackage…          plain UnzipWithContext (no limits => archives inside the tree are not expanded)
//	immutable Store         ZipWithContext -> TransferFiles -> Move(package) -> Move(hash side file); the final name is the
//	                        uploaded name without its extension (only the base name loses ".part")
//	immutable listing       sorted by modification time, most recent first; the first element is fetched
//
// Every statement shape that is not one of the shapes listed in the code below is an error (exit 1): the tie between
// model and source must break rather than guess.
package main

import (
	"bytes"
	"encoding/json"
	"fmt"
	"go/ast"
	"go/parser"
	"go/printer"
	"go/token"
	"os"
	"path/filepath"
	"strings"
)

var fset = token.NewFileSet()

func die(pos token.Pos, format string, a ...any) {
	where := ""
	if pos.IsValid() {
		p := fset.Position(pos)
		where = fmt.Sprintf("%s:%d: ", filepath.Base(p.Filename), p.Line)
	}
	fmt.Fprintf(os.Stderr, "cache2coq: %sunsupported shape: %s\n", where, fmt.Sprintf(format, a...))
	os.Exit(1)
}

func src(n ast.Node) string {
	var b bytes.Buffer
	_ = printer.Fprint(&b, fset, n)
	return strings.Join(strings.Fields(b.String()), " ")
}

type funcs map[string]*ast.FuncDecl // "Recv.Name" or "Name"

func load(path string, into funcs) {
	f, err := parser.ParseFile(fset, path, nil, 0)
	if err != nil {
		fmt.Fprintln(os.Stderr, "cache2coq:", err)
		os.Exit(1)
	}
	for _, d := range f.Decls {
		fd, ok := d.(*ast.FuncDecl)
		if !ok || fd.Body == nil {
			continue
		}
		name := fd.Name.Name
		if fd.Recv != nil && len(fd.Recv.List) == 1 {
			t := fd.Recv.List[0].Type
			if st, ok := t.(*ast.StarExpr); ok {
				t = st.X
			}
			if id, ok := t.(*ast.Ident); ok {
				name = id.Name + "." + name
			}
		}
		into[name] = fd
	}
}

func get(fs funcs, name string) *ast.FuncDecl {
	fd, ok := fs[name]
	if !ok {
		die(token.NoPos, "function %s not found", name)
	}
	return fd
}

// callOf returns the call expression of `… = call` / `… := call` / `call` statements (nil otherwise).
func callOf(s ast.Stmt) *ast.CallExpr {
	switch x := s.(type) {
	case *ast.AssignStmt:
		if len(x.Rhs) == 1 {
			if c, ok := x.Rhs[0].(*ast.CallExpr); ok {
				return c
			}
		}
	case *ast.ExprStmt:
		if c, ok := x.X.(*ast.CallExpr); ok {
			return c
		}
	}
	return nil
}

func selName(c *ast.CallExpr) string { // last selector / identifier of the callee
	switch f := c.Fun.(type) {
	case *ast.SelectorExpr:
		return f.Sel.Name
	case *ast.Ident:
		return f.Name
	}
	return ""
}

// findTop: index of the unique top-level statement of the body whose call has the given callee name (-1 if absent).
func findTop(fd *ast.FuncDecl, callee string) int {
	idx := -1
	for i, s := range fd.Body.List {
		if c := callOf(s); c != nil && selName(c) == callee {
			if idx >= 0 {
				die(s.Pos(), "%s: %s called twice at top level", fd.Name.Name, callee)
			}
			idx = i
		}
	}
	return idx
}

func assignsTo(s ast.Stmt, name string) bool {
	found := false
	ast.Inspect(s, func(n ast.Node) bool {
		if a, ok := n.(*ast.AssignStmt); ok {
			for _, l := range a.Lhs {
				if id, ok := l.(*ast.Ident); ok && id.Name == name {
					found = true
				}
			}
		}
		return true
	})
	return found
}

// isErrReturnIf: `if err != nil { [_ = x.Rm(...)]* return }` — the error just produced is returned.
func isErrReturnIf(s ast.Stmt) bool {
	is, ok := s.(*ast.IfStmt)
	if !ok || is.Init != nil || is.Else != nil || src(is.Cond) != "err != nil" || len(is.Body.List) == 0 {
		return false
	}
	for i, b := range is.Body.List {
		if i == len(is.Body.List)-1 {
			r, ok := b.(*ast.ReturnStmt)
			return ok && (len(r.Results) == 0 || (len(r.Results) == 1 && src(r.Results[0]) == "err"))
		}
		if assignsTo(b, "err") {
			return false
		}
		c := callOf(b)
		if c == nil || selName(c) != "Rm" {
			return false
		}
	}
	return false
}

type facts struct {
	MutFetchDeferAfterAcquire   bool `json:"mut_fetch_defer_after_acquire"`
	MutStoreDeferAfterAcquire   bool `json:"mut_store_defer_after_acquire"`
	MutFetchReturnsTransferErr  bool `json:"mut_fetch_returns_transfer_error"`
	MutStoreReturnsTransferErr  bool `json:"mut_store_returns_transfer_error"`
	RehashFromSource            bool `json:"rehash_from_source"`
	RehashOnce                  bool `json:"rehash_once"`
	DestHashFromTransferredFile bool `json:"dest_hash_from_transferred_file"`
	TransferAlwaysCopies        bool `json:"transfer_always_copies"`
	EntryIsWholeKey             bool `json:"entry_is_whole_key"`
	SetupCleanThenCheck         bool `json:"setup_clean_then_check"`
	UnzipPlain                  bool `json:"unzip_plain"`
	ImmPartBaseOnly             bool `json:"imm_part_base_only"`
	ImmStoreOrder               bool `json:"imm_store_order"`
	ImmFetchNewestFirst         bool `json:"imm_fetch_newest_first"`
}

// mutable Fetch / Store: lock discipline around the call `transfer`.
func lockDiscipline(fd *ast.FuncDecl, transfer string) (deferAfter, returnsErr bool) {
	body := fd.Body.List
	iLock := findTop(fd, "LockWithTimeout")
	if iLock < 0 {
		die(fd.Pos(), "%s: no top-level LockWithTimeout", fd.Name.Name)
	}
	as, ok := body[iLock].(*ast.AssignStmt)
	if !ok || len(as.Lhs) != 1 || src(as.Lhs[0]) != "err" {
		die(body[iLock].Pos(), "%s: result of LockWithTimeout is not assigned to err", fd.Name.Name)
	}
	lockVar := ""
	if se, ok := callOf(body[iLock]).Fun.(*ast.SelectorExpr); ok {
		lockVar = src(se.X)
	}
	if iLock+1 >= len(body) || !isErrReturnIf(body[iLock+1]) || len(body[iLock+1].(*ast.IfStmt).Body.List) != 1 {
		die(body[iLock].Pos(), "%s: LockWithTimeout is not followed by `if err != nil { return }`", fd.Name.Name)
	}
	// the deferred Unlock of the same lock: exactly one, at top level
	iDefer := -1
	var deferred *ast.FuncLit
	ast.Inspect(fd.Body, func(n ast.Node) bool {
		d, ok := n.(*ast.DeferStmt)
		if !ok {
			return true
		}
		if !strings.Contains(src(d.Call), lockVar+".Unlock(") {
			return true
		}
		top := -1
		for i, s := range body {
			if s == ast.Stmt(d) {
				top = i
			}
		}
		if top < 0 {
			die(d.Pos(), "%s: deferred Unlock inside a nested block", fd.Name.Name)
		}
		if iDefer >= 0 {
			die(d.Pos(), "%s: more than one deferred Unlock", fd.Name.Name)
		}
		iDefer = top
		fl, ok := d.Call.Fun.(*ast.FuncLit)
		if !ok || len(d.Call.Args) != 0 {
			die(d.Pos(), "%s: deferred Unlock is not `defer func() { … }()`", fd.Name.Name)
		}
		deferred = fl
		return true
	})
	if iDefer < 0 {
		die(fd.Pos(), "%s: no deferred Unlock of %s", fd.Name.Name, lockVar)
	}
	if iDefer == iLock+1 {
		die(body[iDefer].Pos(), "%s: impossible statement order", fd.Name.Name)
	}
	deferAfter = iDefer > iLock+1
	// nothing may use the lock between a (late) defer and the acquisition; and Unlock must not be called before acquiring
	for i := 0; i < iLock; i++ {
		if i != iDefer && strings.Contains(src(body[i]), lockVar+".Unlock(") {
			die(body[i].Pos(), "%s: Unlock before LockWithTimeout", fd.Name.Name)
		}
	}
	iTr := findTop(fd, transfer)
	if iTr < 0 || iTr < iLock {
		die(fd.Pos(), "%s: call of %s not found after LockWithTimeout", fd.Name.Name, transfer)
	}
	if !assignsTo(body[iTr], "err") {
		die(body[iTr].Pos(), "%s: the error of %s is not assigned to err", fd.Name.Name, transfer)
	}
	returnsErr = iTr+1 < len(body) && isErrReturnIf(body[iTr+1]) && !assignsTo(deferred.Body, "err")
	if fd.Type.Results == nil || len(fd.Type.Results.List) != 1 || len(fd.Type.Results.List[0].Names) != 1 || fd.Type.Results.List[0].Names[0].Name != "err" {
		die(fd.Pos(), "%s: result is not the named value err", fd.Name.Name)
	}
	return
}

func getHashArgs(c *ast.CallExpr) (file, force string) {
	if selName(c) != "getHash" || len(c.Args) != 4 {
		die(c.Pos(), "getHash call with %d arguments", len(c.Args))
	}
	return src(c.Args[2]), src(c.Args[3])
}

func transferFacts(fd *ast.FuncDecl, f *facts) {
	body := fd.Body.List
	names := map[string]bool{}
	for _, p := range fd.Type.Params.List {
		for _, n := range p.Names {
			names[n.Name] = true
		}
	}
	if fd.Type.Results != nil {
		for _, p := range fd.Type.Results.List {
			for _, n := range p.Names {
				names["result:"+n.Name] = true
			}
		}
	}
	if !names["src"] || !names["dst"] || !names["result:destFile"] || !names["result:err"] {
		die(fd.Pos(), "TransferFiles: parameters src / dst and result destFile expected")
	}
	i1, i2 := -1, -1
	var mism []int
	for i, s := range body {
		if c := callOf(s); c != nil && selName(c) == "getHash" {
			as := s.(*ast.AssignStmt)
			switch src(as.Lhs[0]) {
			case "hash1":
				if i1 >= 0 {
					die(s.Pos(), "TransferFiles: hash1 computed twice at top level")
				}
				i1 = i
			case "hash2":
				if i2 >= 0 {
					die(s.Pos(), "TransferFiles: hash2 computed twice at top level")
				}
				i2 = i
			default:
				die(s.Pos(), "TransferFiles: getHash assigned to %s", src(as.Lhs[0]))
			}
		}
		if is, ok := s.(*ast.IfStmt); ok {
			switch src(is.Cond) {
			case "!strings.EqualFold(hash1, hash2)":
				mism = append(mism, i)
			default:
				if strings.Contains(src(is.Cond), "hash2") {
					die(is.Pos(), "TransferFiles: unknown comparison of the hashes: %s", src(is.Cond))
				}
			}
		}
	}
	if i1 < 0 || i2 < 0 || i1 > i2 {
		die(fd.Pos(), "TransferFiles: hash1 / hash2 not computed in this order at top level")
	}
	if file, force := getHashArgs(callOf(body[i1])); file != "src" || force != "false" {
		die(body[i1].Pos(), "TransferFiles: hash1 is getHash(%s, %s)", file, force)
	}
	// the copy: unconditional, at top level between the two hash computations, and nothing between hash1 and the copy
	// leaves the function or branches except the error return of hash1 itself. A copy nested in an `if`, or an early
	// return on some condition (e.g. "the destination already holds that hash"), is the known shape "conditional copy".
	iCopy := findTop(fd, "CopyWithContext")
	if iCopy >= 0 {
		if iCopy < i1 || iCopy > i2 {
			die(fd.Pos(), "TransferFiles: the copy is not between the two hash computations")
		}
		f.TransferAlwaysCopies = true
		for i := i1 + 1; i < iCopy; i++ {
			if i == i1+1 && isErrReturnIf(body[i]) {
				continue
			}
			switch body[i].(type) {
			case *ast.IfStmt, *ast.ReturnStmt, *ast.SwitchStmt, *ast.ForStmt, *ast.BranchStmt, *ast.LabeledStmt:
				f.TransferAlwaysCopies = false
			}
		}
	} else {
		nested := 0
		for i := i1 + 1; i < i2; i++ {
			if is, ok := body[i].(*ast.IfStmt); ok {
				ast.Inspect(is, func(nd ast.Node) bool {
					if c, ok := nd.(*ast.CallExpr); ok && selName(c) == "CopyWithContext" {
						nested++
					}
					return true
				})
			}
		}
		if nested != 1 {
			die(fd.Pos(), "TransferFiles: %d copies between the two hash computations", nested)
		}
		f.TransferAlwaysCopies = false
	}
	file2, force2 := getHashArgs(callOf(body[i2]))
	f.DestHashFromTransferredFile = file2 == "destFile" && force2 == "true"
	// the verdict: the LAST mismatch test removes the destination and sets the error
	if len(mism) == 0 || mism[0] < i2 {
		die(fd.Pos(), "TransferFiles: no comparison of the hashes after both are known")
	}
	last := body[mism[len(mism)-1]].(*ast.IfStmt)
	if !assignsTo(last.Body, "err") || !strings.Contains(src(last.Body), "Rm(destFile)") {
		die(last.Pos(), "TransferFiles: the final mismatch branch does not remove the destination and set err")
	}
	switch len(mism) {
	case 1: // the code before the repair: no second look at the source
		f.RehashFromSource, f.RehashOnce = false, false
	case 2:
		first := body[mism[0]].(*ast.IfStmt)
		n := 0
		from := ""
		ast.Inspect(first.Body, func(nd ast.Node) bool {
			if c, ok := nd.(*ast.CallExpr); ok && selName(c) == "getHash" {
				n++
				file, force := getHashArgs(c)
				if force != "true" {
					die(c.Pos(), "TransferFiles: recalculation without forcing")
				}
				from = file
			}
			return true
		})
		if n != 1 || first.Else != nil {
			die(first.Pos(), "TransferFiles: the first mismatch branch holds %d hash computations", n)
		}
		var target string
		ast.Inspect(first.Body, func(nd ast.Node) bool {
			if a, ok := nd.(*ast.AssignStmt); ok && len(a.Rhs) == 1 {
				if c, ok := a.Rhs[0].(*ast.CallExpr); ok && selName(c) == "getHash" {
					target = src(a.Lhs[0])
				}
			}
			return true
		})
		switch {
		case target == "hash1" && from == "src":
			f.RehashFromSource = true
		case target == "hash1":
			f.RehashFromSource = false // recalculated from something that is not the source
		default:
			die(first.Pos(), "TransferFiles: the recalculation assigns %s", target)
		}
		f.RehashOnce = true
	default:
		die(fd.Pos(), "TransferFiles: %d mismatch tests", len(mism))
	}
	for _, s := range body { // no loop may repeat the recalculation
		if _, ok := s.(*ast.ForStmt); ok {
			die(s.Pos(), "TransferFiles: loop")
		}
	}
}

func setupFacts(fd *ast.FuncDecl, f *facts) {
	body := fd.Body.List
	iClean := -1
	for i, s := range body {
		if c := callOf(s); c != nil && strings.HasPrefix(selName(c), "CleanDir") {
			if selName(c) != "CleanDir" || len(c.Args) != 1 || src(c.Args[0]) != "dest" {
				die(s.Pos(), "setUpLocalDestination: destination emptied by %s", src(c))
			}
			iClean = i
		}
	}
	if iClean < 0 {
		die(fd.Pos(), "setUpLocalDestination: no CleanDir(dest)")
	}
	iLs := findTop(fd, "Ls")
	if iLs < 0 { // the code before the repair
		f.SetupCleanThenCheck = false
		return
	}
	as, ok := body[iLs].(*ast.AssignStmt)
	if !ok || iLs < iClean || len(callOf(body[iLs]).Args) != 1 || src(callOf(body[iLs]).Args[0]) != "dest" {
		die(body[iLs].Pos(), "setUpLocalDestination: listing is not Ls(dest) after CleanDir")
	}
	listVar := src(as.Lhs[0])
	checked := false
	for _, s := range body[iLs+1:] {
		if is, ok := s.(*ast.IfStmt); ok && src(is.Cond) == "len("+listVar+") > 0" && assignsTo(is.Body, "err") {
			checked = true
		}
	}
	if !checked {
		die(body[iLs].Pos(), "setUpLocalDestination: the listing is not tested for emptiness")
	}
	f.SetupCleanThenCheck = true
}

func unpackFacts(fd *ast.FuncDecl, f *facts) {
	n := 0
	ast.Inspect(fd.Body, func(nd ast.Node) bool {
		if c, ok := nd.(*ast.CallExpr); ok && strings.HasPrefix(selName(c), "Unzip") {
			n++
			switch selName(c) {
			case "UnzipWithContext", "Unzip":
				f.UnzipPlain = true
			case "UnzipWithContextAndLimits":
				f.UnzipPlain = false // limits make the unpacking recursive
			default:
				die(c.Pos(), "unpackPackageToLocalDestination: unpacks with %s", selName(c))
			}
		}
		return true
	})
	if n != 1 {
		die(fd.Pos(), "unpackPackageToLocalDestination: %d unzip calls", n)
	}
	if iT, iU := findTop(fd, "TransferFiles"), findTop(fd, "UnzipWithContext")+findTop(fd, "UnzipWithContextAndLimits")+1; iT < 0 || iU < iT {
		die(fd.Pos(), "unpackPackageToLocalDestination: unzip does not follow the transfer to the temporary copy")
	}
}

func immutableStoreFacts(fd *ast.FuncDecl, f *facts) {
	body := fd.Body.List
	iZip, iTr := findTop(fd, "ZipWithContext"), findTop(fd, "TransferFiles")
	var block *ast.IfStmt
	iBlock := -1
	for i, s := range body {
		if is, ok := s.(*ast.IfStmt); ok && strings.Contains(src(is.Cond), "partFileDescriptor") {
			if block != nil {
				die(is.Pos(), "immutable Store: two .part blocks")
			}
			block, iBlock = is, i
		}
	}
	if iZip < 0 || iTr < 0 || block == nil {
		die(fd.Pos(), "immutable Store: zip / transfer / rename block not found at top level")
	}
	if src(block.Cond) != "strings.EqualFold(filepath.Ext(destZip), partFileDescriptor)" {
		die(block.Pos(), "immutable Store: rename condition %s", src(block.Cond))
	}
	// inside the block: finalZip := …; err = Move(destZip, finalZip); …; Move(hashFile, finalHash)
	var moves []*ast.CallExpr
	finalExpr := ""
	ast.Inspect(block.Body, func(nd ast.Node) bool {
		switch x := nd.(type) {
		case *ast.AssignStmt:
			if len(x.Lhs) == 1 && src(x.Lhs[0]) == "finalZip" {
				finalExpr = src(x.Rhs[0])
			}
		case *ast.CallExpr:
			if selName(x) == "Move" || selName(x) == "MoveWithContext" {
				moves = append(moves, x)
			}
		}
		return true
	})
	if len(moves) != 2 {
		die(block.Pos(), "immutable Store: %d Move calls in the rename block", len(moves))
	}
	first, second := src(moves[0]), src(moves[1])
	f.ImmStoreOrder = iZip < iTr && iTr < iBlock && strings.Contains(first, "(destZip, finalZip)") && strings.Contains(second, "(hashFile, finalHash)") && moves[0].Pos() < moves[1].Pos()
	switch finalExpr {
	case "strings.TrimSuffix(destZip, filepath.Ext(destZip))":
		f.ImmPartBaseOnly = true
	case `strings.ReplaceAll(destZip, partFileDescriptor, "")`:
		f.ImmPartBaseOnly = false // the code before the repair: every ".part" of the whole path
	default:
		die(block.Pos(), "immutable Store: final name computed as %s", finalExpr)
	}
}

func newestFirstFacts(fs funcs, f *facts) {
	ls := get(fs, "listCompleteFilesByModTime")
	n := 0
	order := ""
	ast.Inspect(ls.Body, func(nd ast.Node) bool {
		c, ok := nd.(*ast.CallExpr)
		if !ok || src(c.Fun) != "sort.Slice" {
			return true
		}
		n++
		fl, ok := c.Args[1].(*ast.FuncLit)
		if !ok || len(fl.Body.List) != 1 {
			die(c.Pos(), "listing: comparison function")
		}
		r, ok := fl.Body.List[0].(*ast.ReturnStmt)
		if !ok || len(r.Results) != 1 {
			die(c.Pos(), "listing: comparison function")
		}
		switch src(r.Results[0]) {
		case "fileModTimes[i].modTime.After(fileModTimes[j].modTime)":
			order = "newest"
		case "fileModTimes[i].modTime.Before(fileModTimes[j].modTime)":
			order = "oldest"
		default:
			die(r.Pos(), "listing: ordered by %s", src(r.Results[0]))
		}
		return true
	})
	if n != 1 {
		die(ls.Pos(), "listing: %d sort.Slice calls", n)
	}
	find := get(fs, "SharedImmutableCacheRepository.findCachedPackageFromEntryDir")
	pick := ""
	ast.Inspect(find.Body, func(nd ast.Node) bool {
		if a, ok := nd.(*ast.AssignStmt); ok && len(a.Lhs) == 1 && src(a.Lhs[0]) == "cachedPackage" {
			pick = src(a.Rhs[0])
		}
		return true
	})
	if findTop(find, "listCompleteFilesByModTime") < 0 {
		die(find.Pos(), "immutable Fetch: the package is not chosen from listCompleteFilesByModTime")
	}
	switch pick {
	case "filepath.Join(entryDir, files[0])":
		f.ImmFetchNewestFirst = order == "newest"
	default:
		die(find.Pos(), "immutable Fetch: package chosen as %s", pick)
	}
	fetch := get(fs, "SharedImmutableCacheRepository.Fetch")
	iSetup, iFind, iUnpack := findTop(fetch, "setUpLocalDestination"), findTop(fetch, "findCachedPackageFromEntryDir"), findTop(fetch, "unpackPackageToLocalDestination")
	if iSetup < 0 || iFind < iSetup || iUnpack < iFind {
		die(fetch.Pos(), "immutable Fetch: order set-up / choose / unpack")
	}
}

// getCacheEntryPath: the entry directory is <remote storage path>/<key> — the WHOLE key, so distinct keys have distinct entries.
func entryPathFacts(fd *ast.FuncDecl, f *facts) {
	if len(fd.Body.List) != 1 {
		die(fd.Pos(), "getCacheEntryPath: %d statements", len(fd.Body.List))
	}
	r, ok := fd.Body.List[0].(*ast.ReturnStmt)
	if !ok || len(r.Results) != 1 {
		die(fd.Pos(), "getCacheEntryPath: not a single return")
	}
	if len(fd.Type.Params.List) != 1 || len(fd.Type.Params.List[0].Names) != 1 || fd.Type.Params.List[0].Names[0].Name != "key" {
		die(fd.Pos(), "getCacheEntryPath: parameter key expected")
	}
	switch src(r.Results[0]) {
	case "filepath.Join(c.cfg.RemoteStoragePath, key)":
		f.EntryIsWholeKey = true
	case "filepath.Join(c.cfg.RemoteStoragePath, filepath.Base(key))":
		f.EntryIsWholeKey = false // only the last element: keys with a common last element share an entry
	default:
		die(r.Pos(), "getCacheEntryPath: entry computed as %s", src(r.Results[0]))
	}
}

func b(x bool) string {
	if x {
		return "true"
	}
	return "false"
}

func writeIfChanged(path string, content []byte) {
	if old, err := os.ReadFile(path); err == nil && bytes.Equal(old, content) {
		return
	}
	if err := os.WriteFile(path, content, 0o644); err != nil {
		fmt.Fprintln(os.Stderr, "cache2coq:", err)
		os.Exit(1)
	}
}

func main() {
	if len(os.Args) != 2 {
		fmt.Fprintln(os.Stderr, "usage: cache2coq <output directory (coq/C16)>")
		os.Exit(2)
	}
	repo := os.Getenv("VERIF_REPO")
	if repo == "" {
		repo = "/repo"
	}
	dir := filepath.Join(repo, "utils", "sharedcache")
	fs := funcs{}
	for _, n := range []string{"common.go", "sharedcache_mutable.go", "sharedcache_immutable.go"} {
		load(filepath.Join(dir, n), fs)
	}
	var f facts
	f.MutFetchDeferAfterAcquire, f.MutFetchReturnsTransferErr = lockDiscipline(get(fs, "SharedMutableCacheRepository.Fetch"), "unpackPackageToLocalDestination")
	f.MutStoreDeferAfterAcquire, f.MutStoreReturnsTransferErr = lockDiscipline(get(fs, "SharedMutableCacheRepository.Store"), "TransferFiles")
	transferFacts(get(fs, "TransferFiles"), &f)
	entryPathFacts(get(fs, "AbstractSharedCacheRepository.getCacheEntryPath"), &f)
	setupFacts(get(fs, "AbstractSharedCacheRepository.setUpLocalDestination"), &f)
	unpackFacts(get(fs, "AbstractSharedCacheRepository.unpackPackageToLocalDestination"), &f)
	immutableStoreFacts(get(fs, "SharedImmutableCacheRepository.Store"), &f)
	newestFirstFacts(fs, &f)

	var v bytes.Buffer
	v.WriteString("(* GENERATED by translator-c16/cmd/cache2coq from utils/sharedcache/{common,sharedcache_mutable,sharedcache_immutable}.go — do not edit.\n")
	v.WriteString("   The facts behind the flags and the fixed micro-step order of coq/C16/Model.v. *)\n")
	v.WriteString("From GU Require Import C16.Facts.\n\n")
	v.WriteString("Definition gen_facts : facts := {|\n")
	fmt.Fprintf(&v, "  f_mut_fetch_defer_after_acquire := %s;\n", b(f.MutFetchDeferAfterAcquire))
	fmt.Fprintf(&v, "  f_mut_store_defer_after_acquire := %s;\n", b(f.MutStoreDeferAfterAcquire))
	fmt.Fprintf(&v, "  f_mut_fetch_returns_transfer_error := %s;\n", b(f.MutFetchReturnsTransferErr))
	fmt.Fprintf(&v, "  f_mut_store_returns_transfer_error := %s;\n", b(f.MutStoreReturnsTransferErr))
	fmt.Fprintf(&v, "  f_rehash_from_source := %s;\n", b(f.RehashFromSource))
	fmt.Fprintf(&v, "  f_rehash_once := %s;\n", b(f.RehashOnce))
	fmt.Fprintf(&v, "  f_dest_hash_from_transferred_file := %s;\n", b(f.DestHashFromTransferredFile))
	fmt.Fprintf(&v, "  f_transfer_always_copies := %s;\n", b(f.TransferAlwaysCopies))
	fmt.Fprintf(&v, "  f_entry_is_whole_key := %s;\n", b(f.EntryIsWholeKey))
	fmt.Fprintf(&v, "  f_setup_clean_then_check := %s;\n", b(f.SetupCleanThenCheck))
	fmt.Fprintf(&v, "  f_unzip_plain := %s;\n", b(f.UnzipPlain))
	fmt.Fprintf(&v, "  f_imm_part_base_only := %s;\n", b(f.ImmPartBaseOnly))
	fmt.Fprintf(&v, "  f_imm_store_order := %s;\n", b(f.ImmStoreOrder))
	fmt.Fprintf(&v, "  f_imm_fetch_newest_first := %s\n|}.\n", b(f.ImmFetchNewestFirst))
	writeIfChanged(filepath.Join(os.Args[1], "Gen.v"), v.Bytes())
	js, _ := json.MarshalIndent(f, "", " ")
	writeIfChanged(filepath.Join(os.Args[1], "facts.json"), append(js, '\n'))
}
