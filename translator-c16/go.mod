module verif/translatorc16

go 1.24.1
