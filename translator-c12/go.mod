module verif/translatorc12

go 1.24.1
