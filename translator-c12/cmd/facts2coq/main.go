// facts2coq extracts from utils/parallelisation/parallelisation.go and cancel_functions.go (go/ast only) the FACTS that
// the C12 models are parameterised by, and writes them as the record `gen_facts` of coq/C12/Gen.v:
//   - the capacity of every channel made in RunActionWithTimeout, RunActionWithTimeoutAndCancelStore and Parallelise;
//   - for each select: its case list (receive from the result channel / time.After(timeout) / timeoutContext.Done())
//     and what each branch does, statement by statement;
//   - what is registered in the store, what is deferred, the entry check on the parent context, the contexts' parents,
//     and what DetermineContextError converts (ctx.Err() or context.Cause(ctx));
//   - for Parallelise: one `go` per argument i in [0,length) calling the action on Index(i) and sending on the channel,
//     the collecting loop over [0,length) returning on the first error;
//   - for CancelFunctionStore: the lock mode of every method and whether Register copies its arguments.
// Every shape that is not recognised EXACTLY is an error (exit 1): the tie must break rather than guess.
//
// usage: facts2coq <out.v>      (reads $VERIF_REPO, default /repo)
package main

import (
	"bytes"
	"fmt"
	"go/ast"
	"go/parser"
	"go/printer"
	"go/token"
	"os"
	"path/filepath"
	"strings"
)

var fset = token.NewFileSet()

func die(pos token.Pos, format string, a ...any) {
	fmt.Fprintf(os.Stderr, "facts2coq: %s: %s\n", fset.Position(pos), fmt.Sprintf(format, a...))
	os.Exit(1)
}

func src(n ast.Node) string {
	var b bytes.Buffer
	_ = printer.Fprint(&b, fset, n)
	return strings.Join(strings.Fields(b.String()), " ")
}

func parse(path string) *ast.File {
	f, err := parser.ParseFile(fset, path, nil, 0)
	if err != nil {
		fmt.Fprintln(os.Stderr, "facts2coq:", err)
		os.Exit(1)
	}
	return f
}

func findFunc(f *ast.File, recv, name string) *ast.FuncDecl {
	for _, d := range f.Decls {
		fd, ok := d.(*ast.FuncDecl)
		if !ok || fd.Name.Name != name {
			continue
		}
		if recv == "" && fd.Recv == nil {
			return fd
		}
		if recv != "" && fd.Recv != nil && len(fd.Recv.List) == 1 && strings.TrimPrefix(src(fd.Recv.List[0].Type), "*") == recv {
			return fd
		}
	}
	fmt.Fprintf(os.Stderr, "facts2coq: function %s.%s not found\n", recv, name)
	os.Exit(1)
	return nil
}

// expect that statement i of list has exactly the given source text
func expect(list []ast.Stmt, i int, want string, where token.Pos) {
	if i >= len(list) {
		die(where, "statement %d missing, expected `%s`", i, want)
	}
	if got := src(list[i]); got != want {
		die(list[i].Pos(), "unknown shape: expected `%s`, found `%s`", want, got)
	}
}

// make(chan T [, cap]) assigned to name; returns the capacity expression ("" when absent)
func chanMake(s ast.Stmt, name string) string {
	as, ok := s.(*ast.AssignStmt)
	if !ok || as.Tok != token.DEFINE || len(as.Lhs) != 1 || len(as.Rhs) != 1 || src(as.Lhs[0]) != name {
		die(s.Pos(), "unknown shape: expected `%s := make(chan ...)`, found `%s`", name, src(s))
	}
	call, ok := as.Rhs[0].(*ast.CallExpr)
	if !ok || src(call.Fun) != "make" || len(call.Args) < 1 || len(call.Args) > 2 {
		die(s.Pos(), "unknown shape: expected make(chan ...), found `%s`", src(s))
	}
	if _, ok := call.Args[0].(*ast.ChanType); !ok {
		die(s.Pos(), "unknown shape: not a channel: `%s`", src(s))
	}
	if len(call.Args) == 1 {
		return ""
	}
	return src(call.Args[1])
}

func capLiteral(e string, pos token.Pos) int {
	if e == "" {
		return 0
	}
	var n int
	if _, err := fmt.Sscanf(e, "%d", &n); err != nil || fmt.Sprint(n) != e || n < 0 {
		die(pos, "unknown shape: channel capacity `%s` is not a literal", e)
	}
	return n
}

func selectCases(s ast.Stmt) []*ast.CommClause {
	sel, ok := s.(*ast.SelectStmt)
	if !ok {
		die(s.Pos(), "unknown shape: expected a select, found `%s`", src(s))
	}
	var cs []*ast.CommClause
	for _, c := range sel.Body.List {
		cc := c.(*ast.CommClause)
		if cc.Comm == nil {
			die(cc.Pos(), "unknown shape: select with a default case")
		}
		cs = append(cs, cc)
	}
	if len(cs) != 2 {
		die(s.Pos(), "unknown shape: select with %d cases (expected 2)", len(cs))
	}
	return cs
}

type facts struct {
	ratChanCap, ratStopCap     int
	ratChanBranch, ratTimerBr  []string
	ratWaits                   bool
	xInitialCheck, xRegT       bool
	xRegA, xDeferT             bool
	xChanCap                   int
	xErrBranch, xChanTail, xTO []string
	ctxDeferStoreCancel        bool
	ctxErrSrc                  string
	parCap                     string
	regLock, cancelLock        string
	lenLock                    string
	regCopies                  bool
}

func runActionWithTimeout(fd *ast.FuncDecl, f *facts) {
	b := fd.Body.List
	if len(b) != 7 && len(b) != 6 {
		die(fd.Pos(), "unknown shape: RunActionWithTimeout has %d statements (expected 7)", len(b))
	}
	f.ratChanCap = capLiteral(chanMake(b[0], "channel"), b[0].Pos())
	f.ratStopCap = capLiteral(chanMake(b[1], "stop"), b[1].Pos())
	expect(b, 2, "completed := atomic.NewBool(false)", fd.Pos())
	expect(b, 3, "go func(action func(stop chan bool) error) { channel <- action(stop) }(blockingAction)", fd.Pos())
	for _, cc := range selectCases(b[4]) {
		var acts []string
		for _, s := range cc.Body {
			switch src(s) {
			case "completed.Store(true)":
				acts = append(acts, "RSetCompleted")
			case "stop <- true":
				acts = append(acts, "RSendStop")
			case "err = commonerrors.ErrTimeout":
				acts = append(acts, "RSetErr KTimeout")
			case "err = commonerrors.ErrCancelled":
				acts = append(acts, "RSetErr KCancelled")
			default:
				die(s.Pos(), "unknown shape in a select branch of RunActionWithTimeout: `%s`", src(s))
			}
		}
		switch src(cc.Comm) {
		case "err = <-channel":
			if f.ratChanBranch != nil {
				die(cc.Pos(), "duplicate select case")
			}
			f.ratChanBranch = append([]string{}, acts...)
		case "<-time.After(timeout)":
			if f.ratTimerBr != nil {
				die(cc.Pos(), "duplicate select case")
			}
			f.ratTimerBr = append([]string{}, acts...)
		default:
			die(cc.Pos(), "unknown select case in RunActionWithTimeout: `%s`", src(cc.Comm))
		}
	}
	if f.ratChanBranch == nil || f.ratTimerBr == nil {
		die(b[4].Pos(), "select of RunActionWithTimeout lacks the channel case or the timer case")
	}
	if len(b) == 7 {
		expect(b, 5, "if !completed.Load() { <-channel }", fd.Pos())
		f.ratWaits = true
	}
	expect(b, len(b)-1, "return", fd.Pos())
	if r := fd.Type.Results; r == nil || len(r.List) != 1 || len(r.List[0].Names) != 1 || r.List[0].Names[0].Name != "err" || src(r.List[0].Type) != "error" {
		die(fd.Pos(), "unknown shape: RunActionWithTimeout does not have the single named result `err error`")
	}
}

func xBranch(list []ast.Stmt, where string) []string {
	var acts []string
	for i := 0; i < len(list); i++ {
		s := list[i]
		switch t := src(s); t {
		case "actionCancel()":
			acts = append(acts, "XACancelAction")
		case "timeoutCancel()":
			acts = append(acts, "XACancelTimeout")
		case "<-cancelCtx.Done()":
			acts = append(acts, "XAWaitActionDone")
		case "<-channel":
			acts = append(acts, "XARecvChan")
		case "err2 := DetermineContextError(timeoutContext)":
			if i+1 >= len(list) || src(list[i+1]) != "if err2 != nil { return err2 }" {
				die(s.Pos(), "unknown shape after `%s` in %s", t, where)
			}
			i++
			acts = append(acts, "XARetTimeoutErrIfAny")
		case "return err":
			acts = append(acts, "XARetErr")
		case "return DetermineContextError(timeoutContext)":
			acts = append(acts, "XARetTimeoutErr")
		default:
			die(s.Pos(), "unknown shape in %s: `%s`", where, t)
		}
	}
	return acts
}

func runActionWithCancelStore(fd *ast.FuncDecl, f *facts) {
	b := fd.Body.List
	i := 0
	if i+1 < len(b) && src(b[i]) == "err := DetermineContextError(ctx)" && src(b[i+1]) == "if err != nil { return err }" {
		f.xInitialCheck = true
		i += 2
	} else if src(b[i]) == "var err error" {
		i++
	} else {
		die(b[i].Pos(), "unknown shape at the start of RunActionWithTimeoutAndCancelStore: `%s`", src(b[i]))
	}
	expect(b, i, "timeoutContext, timeoutCancel := context.WithTimeout(ctx, timeout)", fd.Pos())
	i++
	// registrations and the deferred timeoutCancel, in any order, around the creation of cancelCtx
	seenCancelCtx := false
	for ; i < len(b); i++ {
		switch t := src(b[i]); t {
		case "store.RegisterCancelFunction(timeoutCancel)":
			f.xRegT = true
		case "store.RegisterCancelFunction(actionCancel)":
			if !seenCancelCtx {
				die(b[i].Pos(), "actionCancel registered before it exists")
			}
			f.xRegA = true
		case "store.RegisterCancelFunction(timeoutCancel, actionCancel)", "store.RegisterCancelFunction(actionCancel, timeoutCancel)":
			f.xRegT, f.xRegA = true, true
		case "defer timeoutCancel()":
			f.xDeferT = true
		case "cancelCtx, actionCancel := context.WithCancel(ctx)":
			seenCancelCtx = true
		default:
			goto afterSetup
		}
	}
afterSetup:
	if !seenCancelCtx {
		die(fd.Pos(), "unknown shape: `cancelCtx, actionCancel := context.WithCancel(ctx)` not found")
	}
	if i+3 != len(b) {
		die(fd.Pos(), "unknown shape: %d statements after the set-up of RunActionWithTimeoutAndCancelStore (expected 3)", len(b)-i)
	}
	f.xChanCap = capLiteral(chanMake(b[i], "channel"), b[i].Pos())
	expect(b, i+1, "go func(actionCtx context.Context, action func(context.Context) error) { channel <- action(actionCtx) }(cancelCtx, blockingAction)", fd.Pos())
	gotChan, gotTO := false, false
	for _, cc := range selectCases(b[i+2]) {
		switch src(cc.Comm) {
		case "err = <-channel":
			if gotChan {
				die(cc.Pos(), "duplicate select case")
			}
			gotChan = true
			body := cc.Body
			if len(body) > 0 {
				if ifs, ok := body[0].(*ast.IfStmt); ok && ifs.Init == nil && ifs.Else == nil && src(ifs.Cond) == "err != nil" {
					f.xErrBranch = xBranch(ifs.Body.List, "the `if err != nil` block")
					body = body[1:]
				}
			}
			f.xChanTail = xBranch(body, "the channel branch")
		case "<-timeoutContext.Done()":
			if gotTO {
				die(cc.Pos(), "duplicate select case")
			}
			gotTO = true
			f.xTO = xBranch(cc.Body, "the timeout branch")
		default:
			die(cc.Pos(), "unknown select case in RunActionWithTimeoutAndCancelStore: `%s`", src(cc.Comm))
		}
	}
	if !gotChan || !gotTO {
		die(b[i+2].Pos(), "select lacks the channel case or the timeout case")
	}
	for _, br := range [][]string{f.xChanTail, f.xTO} {
		if n := len(br); n == 0 || !strings.HasPrefix(br[n-1], "XARet") || br[n-1] == "XARetTimeoutErrIfAny" {
			die(b[i+2].Pos(), "unknown shape: a select branch does not end in a return")
		}
	}
}

// DetermineContextError must be  return commonerrors.ConvertContextError(<source>)  with <source> = ctx.Err() or context.Cause(ctx)
func determineContextError(fd *ast.FuncDecl, f *facts) {
	if len(fd.Body.List) != 1 {
		die(fd.Pos(), "unknown shape: DetermineContextError has %d statements", len(fd.Body.List))
	}
	switch t := src(fd.Body.List[0]); t {
	case "return commonerrors.ConvertContextError(ctx.Err())":
		f.ctxErrSrc = "SrcErr"
	case "return commonerrors.ConvertContextError(context.Cause(ctx))":
		f.ctxErrSrc = "SrcCause"
	default:
		die(fd.Pos(), "unknown shape of DetermineContextError: `%s`", t)
	}
	if p := fd.Type.Params; p == nil || len(p.List) != 1 || len(p.List[0].Names) != 1 || p.List[0].Names[0].Name != "ctx" {
		die(fd.Pos(), "unknown shape: parameters of DetermineContextError")
	}
}

func runActionWithContext(fd *ast.FuncDecl, f *facts) {
	b := fd.Body.List
	expect(b, 0, "store := NewCancelFunctionsStore()", fd.Pos())
	i := 1
	if i < len(b) && src(b[i]) == "defer store.Cancel()" {
		f.ctxDeferStoreCancel = true
		i++
	}
	expect(b, i, "return RunActionWithTimeoutAndCancelStore(ctx, timeout, store, blockingAction)", fd.Pos())
	if i+1 != len(b) {
		die(fd.Pos(), "unknown shape: trailing statements in RunActionWithTimeoutAndContext")
	}
}

func parallelise(fd *ast.FuncDecl, f *facts) {
	b := fd.Body.List
	if len(b) != 10 {
		die(fd.Pos(), "unknown shape: Parallelise has %d statements (expected 10)", len(b))
	}
	expect(b, 0, "keepReturn := resultType != nil", fd.Pos())
	expect(b, 1, "argListValue := reflect.ValueOf(argList)", fd.Pos())
	expect(b, 2, "length := argListValue.Len()", fd.Pos())
	switch c := chanMake(b[3], "channel"); c {
	case "length", "argListValue.Len()":
		f.parCap = "CapLen"
	default:
		f.parCap = fmt.Sprintf("(CapConst %d)", capLiteral(c, b[3].Pos()))
	}
	expect(b, 4, "for i := 0; i < length; i++ { go func(args reflect.Value, actionFunc func(arg interface{}) (interface{}, error)) { var r result r.Item, r.err = func(v reflect.Value) (interface{}, error) { return actionFunc(v.Interface()) }(args) channel <- r }(argListValue.Index(i), action) }", fd.Pos())
	expect(b, 5, "var v reflect.Value", fd.Pos())
	expect(b, 6, "if keepReturn { v = reflect.MakeSlice(resultType, 0, length) }", fd.Pos())
	expect(b, 7, "for i := 0; i < length; i++ { r := <-channel err = r.err if err != nil { return } if keepReturn { v = reflect.Append(v, reflect.ValueOf(r.Item)) } }", fd.Pos())
	expect(b, 8, "if keepReturn { results = v.Interface() }", fd.Pos())
	expect(b, 9, "return", fd.Pos())
}

// lock mode of a method whose body is  `defer s.mu.X()` ; `s.mu.Y()` ; <one statement>
func lockedMethod(fd *ast.FuncDecl) (mode string, body ast.Stmt) {
	b := fd.Body.List
	if len(b) == 1 {
		return "LNone", b[0]
	}
	if len(b) != 3 {
		die(fd.Pos(), "unknown shape: method %s has %d statements", fd.Name.Name, len(b))
	}
	d, l := src(b[0]), src(b[1])
	if src(b[1]) == "defer s.mu.Unlock()" || src(b[1]) == "defer s.mu.RUnlock()" {
		d, l = l, d
	}
	switch {
	case d == "defer s.mu.Unlock()" && l == "s.mu.Lock()":
		return "LLock", b[2]
	case d == "defer s.mu.RUnlock()" && l == "s.mu.RLock()":
		return "LRLock", b[2]
	}
	die(fd.Pos(), "unknown locking shape in %s: `%s` ; `%s`", fd.Name.Name, src(b[0]), src(b[1]))
	return "", nil
}

func store(file *ast.File, f *facts) {
	var body ast.Stmt
	f.regLock, body = lockedMethod(findFunc(file, "CancelFunctionStore", "RegisterCancelFunction"))
	switch src(body) {
	case "s.cancelFunctions = append(s.cancelFunctions, cancel...)":
		f.regCopies = true
	default:
		die(body.Pos(), "unknown shape of the update in RegisterCancelFunction: `%s`", src(body))
	}
	f.cancelLock, body = lockedMethod(findFunc(file, "CancelFunctionStore", "Cancel"))
	if src(body) != "for _, c := range s.cancelFunctions { c() }" {
		die(body.Pos(), "unknown shape of the loop in Cancel: `%s`", src(body))
	}
	f.lenLock, body = lockedMethod(findFunc(file, "CancelFunctionStore", "Len"))
	if src(body) != "return len(s.cancelFunctions)" {
		die(body.Pos(), "unknown shape of Len: `%s`", src(body))
	}
	nf := findFunc(file, "", "NewCancelFunctionsStore")
	if len(nf.Body.List) != 1 || src(nf.Body.List[0]) != "return &CancelFunctionStore{ cancelFunctions: []context.CancelFunc{}, }" {
		die(nf.Pos(), "unknown shape of NewCancelFunctionsStore: `%s`", src(nf.Body))
	}
}

func list(xs []string) string {
	ys := make([]string, len(xs))
	for i, x := range xs {
		if strings.Contains(x, " ") {
			x = "(" + x + ")"
		}
		ys[i] = x
	}
	return "[" + strings.Join(ys, "; ") + "]"
}

func b2s(b bool) string {
	if b {
		return "true"
	}
	return "false"
}

func main() {
	if len(os.Args) != 2 {
		fmt.Fprintln(os.Stderr, "usage: facts2coq <out.v>")
		os.Exit(2)
	}
	repo := os.Getenv("VERIF_REPO")
	if repo == "" {
		repo = "/repo"
	}
	dir := filepath.Join(repo, "utils", "parallelisation")
	par := parse(filepath.Join(dir, "parallelisation.go"))
	cf := parse(filepath.Join(dir, "cancel_functions.go"))
	var f facts
	runActionWithTimeout(findFunc(par, "", "RunActionWithTimeout"), &f)
	runActionWithCancelStore(findFunc(par, "", "RunActionWithTimeoutAndCancelStore"), &f)
	runActionWithContext(findFunc(par, "", "RunActionWithTimeoutAndContext"), &f)
	determineContextError(findFunc(par, "", "DetermineContextError"), &f)
	parallelise(findFunc(par, "", "Parallelise"), &f)
	store(cf, &f)

	var o strings.Builder
	o.WriteString("(* GENERATED by translator-c12/cmd/facts2coq from utils/parallelisation/{parallelisation.go,cancel_functions.go}. Do not edit. *)\n")
	o.WriteString("From Coq Require Import List.\nImport ListNotations.\nFrom GU Require Import C12.Facts.\n\n")
	o.WriteString("Definition gen_facts : facts := {|\n")
	fmt.Fprintf(&o, "  f_rat_chan_cap := %d;\n  f_rat_stop_cap := %d;\n", f.ratChanCap, f.ratStopCap)
	fmt.Fprintf(&o, "  f_rat_chan_branch := %s;\n  f_rat_timer_branch := %s;\n  f_rat_waits := %s;\n", list(f.ratChanBranch), list(f.ratTimerBr), b2s(f.ratWaits))
	fmt.Fprintf(&o, "  f_x_initial_check := %s;\n  f_x_reg_t := %s;\n  f_x_reg_a := %s;\n  f_x_defer_tcancel := %s;\n  f_x_chan_cap := %d;\n",
		b2s(f.xInitialCheck), b2s(f.xRegT), b2s(f.xRegA), b2s(f.xDeferT), f.xChanCap)
	fmt.Fprintf(&o, "  f_x_err_branch := %s;\n  f_x_chan_tail := %s;\n  f_x_timeout_branch := %s;\n", list(f.xErrBranch), list(f.xChanTail), list(f.xTO))
	fmt.Fprintf(&o, "  f_ctx_err_src := %s;\n  f_ctx_defer_store_cancel := %s;\n  f_par_cap := %s;\n", f.ctxErrSrc, b2s(f.ctxDeferStoreCancel), f.parCap)
	fmt.Fprintf(&o, "  f_reg_lock := %s;\n  f_reg_copies := %s;\n  f_cancel_lock := %s;\n  f_len_lock := %s\n|}.\n", f.regLock, b2s(f.regCopies), f.cancelLock, f.lenLock)
	out := o.String()
	if old, err := os.ReadFile(os.Args[1]); err == nil && string(old) == out {
		return
	}
	if err := os.WriteFile(os.Args[1], []byte(out), 0o644); err != nil {
		fmt.Fprintln(os.Stderr, "facts2coq:", err)
		os.Exit(1)
	}
}
